"""C10 -- Note (mingus/containers/note.py)."""
from __future__ import annotations

import ast

from ..engine.absval import Lin, Sym, Ch, Run, AbsStr, Rep, Sel, Opaque, AObj, AClass, INF
from ..engine.absint import CannotDecide, Interp, explore, RaiseEx, Frame
from ..engine.loader import AnalysisError, short, norm
from ..engine import notesdom as nd
from ..engine.notesdom import paths_of, NAT, LETTERS, decompose

PROP = "C10"
EXPLANATION = (
    "Static rules over containers/note.py with abstract Note objects: __int__ is evaluated on name = letter x symbolic "
    "accidental run and a symbolic octave (closed form 12*octave + natural + sharps - flats), from_int on a symbolic "
    "integer (i = 12*q + r is tracked so that int(from_int(i)) == i as linear forms); the six rich comparisons are "
    "evaluated with int() of both operands symbolic and compared with the operator's trichotomy table on every path; "
    "set_note / copy construction / bounds setters are evaluated on symbolic inputs (in-range and both unbounded "
    "out-of-range sides); the Helmholtz writer is summarised symbolically in the octave (count-down loops) and the "
    "reader is evaluated on the writer's output shapes; attribute writers of velocity/channel are enumerated "
    "(who-may-write). The Hz pair is specialised over the MIDI range 0..127 x 3 standard pitches x 3 detunings.")
TRUSTED = ["CPython ast module", "mingus_static abstract evaluator", "C01 summaries of core.notes", "IEEE float arithmetic of the host python for the Hz specialisation"]
NOT_DECIDED = "Hz round trip for detunings other than the sampled -40/0/+40 cents (a numeric fact); int() of malformed octave text"

NM = "mingus.containers.note"
CN = "mingus.core.notes"


def note_obj(ci, **attrs):
    return AObj(ci, attrs, name="note")


def run(ctx):
    mod = ctx.repo.mod(NM)
    ci = mod.cls("Note")
    ctx.touch(mod)
    for m in ci.methods.values():
        ctx.touch(m)
    rule_int(ctx, mod, ci)
    rule_compare(ctx, mod, ci)
    rule_text(ctx, mod, ci)
    rule_bounds(ctx, mod, ci)
    rule_ctor_bounds(ctx, mod, ci)
    rule_both_sources(ctx, mod, ci)
    rule_hz(ctx, mod, ci)
    rule_helmholtz(ctx, mod, ci)
    ctx.floor("R-C10-1", 8)
    ctx.floor("R-C10-2", 18)
    ctx.floor("R-C10-3", 8)
    ctx.floor("R-C10-4", 7)
    ctx.floor("R-C10-5", 3)
    ctx.floor("R-C10-6", 14)


def _method(ctx, ci, name):
    m = ctx.repo.find_method(ci, name)
    if m is None:
        raise AnalysisError("Note.%s vanished" % name)
    return m


def rule_int(ctx, mod, ci):
    R = "R-C10-1"
    fi = _method(ctx, ci, "__int__")
    for L in LETTERS:
        run = nd.acc_run("R")
        o = Sym("octave", 0, INF)
        obj = note_obj(ci, name=AbsStr([L, run]), octave=Lin.of(o))
        paths = paths_of(ctx.repo, fi, [obj])
        want = Lin.of(o).scale(12) + NAT[L] + nd.run_net(run)
        ok = bool(paths) and all(p.kind == "return" and Lin.of(p.value) is not None and not isinstance(p.value, str)
                                 and nd.same(p.interp, p.value, want) for p in paths)
        ctx.check(ok, R, "__int__[%s]" % L, fi.where(), "int(Note(%s<any accidentals>, octave))" % L,
                  "int() is %s, expected 12*octave + %d + sharps - flats" % ([repr(p.value) for p in paths], NAT[L]))
    ff = _method(ctx, ci, "from_int")
    i = Sym("i", 0, INF)
    holder = {}

    def mk_args():
        holder["o"] = note_obj(ci)
        return [holder["o"], Lin.of(i)]
    paths = paths_of(ctx.repo, ff, mk_args)
    ok, why = len(paths) == 1 and paths[0].kind == "return", "from_int(i): %r" % (paths,)
    if ok:
        it = paths[0].interp
        o = holder["o"]
        name, octave = o.attrs.get("name"), o.attrs.get("octave")
        if not isinstance(name, Sel) or Lin.of(octave) is None:
            ok, why = False, "from_int sets name=%r octave=%r" % (name, octave)
        else:
            tbl_ok = len(name.table) == 12 and all(nd.pitch_of_concrete(n) == k for k, n in enumerate(name.table))
            total = Lin.of(octave).scale(12) + name.index
            if not tbl_ok or not nd.same(it, total, Lin.of(i)):
                ok, why = False, "12*octave + pitch class of the name = %s, not the integer (table ok: %s)" % (it.resolve(total), tbl_ok)
    ctx.check(ok, R, "from_int", ff.where(), "Note().from_int(i)", why)


def rule_compare(ctx, mod, ci):
    R = "R-C10-2"
    table = {"__lt__": ("lt",), "__eq__": ("eq",), "__ne__": ("lt", "gt"), "__gt__": ("gt",),
             "__le__": ("lt", "eq"), "__ge__": ("gt", "eq")}
    A, B = Sym("int(self)", 0, INF), Sym("int(other)", 0, INF)
    for mname, true_on in table.items():
        fi = _method(ctx, ci, mname)
        a, b = note_obj(ci), note_obj(ci)

        def int_summary(it, args, kwargs, node, a=a, b=b):
            if args[0] is a:
                return Lin.of(A)
            if args[0] is b:
                return Lin.of(B)
            raise CannotDecide("int() of an unexpected object")
        key = "%s.%s" % (NM, "Note.__int__")
        try:
            paths = paths_of(ctx.repo, fi, [a, b], summaries={key: int_summary})
        except CannotDecide as e:
            raise AnalysisError("Note.%s: %s" % (mname, e))
        ok, why = bool(paths), "no outcome"
        seen = set()
        for p in paths:
            lo, hi = p.interp.lin_interval(Lin.of(A) - Lin.of(B))
            d_ = Lin.of(A) - Lin.of(B)
            classes = [c for c, cond in (("lt", lo < 0), ("eq", not p.interp.excludes(d_, 0)), ("gt", hi > 0)) if cond]
            if lo == hi == 0:
                classes = ["eq"]
            if p.kind != "return" or not isinstance(p.value, bool):
                ok, why = False, "%s %r" % (p.kind, p.value)
                break
            want = {c in true_on for c in classes}
            if want != {p.value}:
                ok, why = False, "returns %r on a path where int(self) - int(other) is in [%s, %s] (orderings %s)" % (p.value, lo, hi, classes)
                break
            seen |= set(classes)
        if ok and seen != {"lt", "eq", "gt"}:
            ok, why = False, "the method never distinguishes the orderings %s" % sorted({"lt", "eq", "gt"} - seen)
        ctx.check(ok, R, mname, fi.where(), "Note.%s" % mname, why)
        # the same table with the real __int__ on structured operands (letter x accidental run x symbolic octave):
        # a shortcut through octave or name alone is wrong for B#-3 / Cb-4 style spellings
        for La, Lb in (("B", "C"), ("E", "E")):
            ra, rb = nd.acc_run("Ra"), nd.acc_run("Rb")
            oa, ob = Sym("octave_a", 0, INF), Sym("octave_b", 0, INF)
            a = note_obj(ci, name=AbsStr([La, ra]), octave=Lin.of(oa))
            b = note_obj(ci, name=AbsStr([Lb, rb]), octave=Lin.of(ob))
            d_ = (Lin.of(oa) - Lin.of(ob)).scale(12) + (NAT[La] - NAT[Lb]) + nd.run_net(ra) - nd.run_net(rb)
            try:
                paths = paths_of(ctx.repo, fi, [a, b], max_paths=4000)
            except CannotDecide as e:
                raise AnalysisError("Note.%s on structured notes: %s" % (mname, e))
            ok, why = bool(paths), "no outcome"
            for p in paths:
                lo, hi = p.interp.lin_interval(p.interp.resolve(d_))
                classes = [c for c, cond in (("lt", lo < 0), ("eq", lo <= 0 <= hi and not p.interp.excludes(d_, 0)), ("gt", hi > 0)) if cond]
                if p.kind != "return" or not isinstance(p.value, bool):
                    ok, why = False, "%s %r" % (p.kind, p.value)
                    break
                if {c in true_on for c in classes} != {p.value}:
                    ok, why = False, ("returns %r on a path where int(self) - int(other) = %s ranges over [%s, %s] (orderings %s): "
                                      "the answer does not follow the pitch numbers" % (p.value, p.interp.resolve(d_), lo, hi, classes))
                    break
            ctx.check(ok, R, "%s[%s..,%s..]" % (mname, La, Lb), fi.where(), "Note.%s on %s<acc>-o1 vs %s<acc>-o2" % (mname, La, Lb), why)
        # None never compares equal / smaller
    for mname in ("__lt__", "__eq__"):
        fi = _method(ctx, ci, mname)
        paths = paths_of(ctx.repo, fi, [note_obj(ci), None])
        ok = len(paths) == 1 and paths[0].kind == "return" and paths[0].value is False
        ctx.check(ok, R, mname + "(None)", fi.where(), "Note.%s(None)" % mname, "comparison with None gives %r" % [(p.kind, p.value) for p in paths])


def rule_text(ctx, mod, ci):
    R = "R-C10-3"
    fs = _method(ctx, ci, "set_note")
    # plain name
    for L in "CB":
        run = nd.acc_run("R")
        name = AbsStr([L, run])
        octv = Sym("octave", 0, INF)
        holder = {}

        def mk():
            holder["o"] = note_obj(ci)
            return [holder["o"], name, Lin.of(octv), {}]
        paths = paths_of(ctx.repo, fs, mk)
        o = holder["o"]
        ok = len(paths) == 1 and paths[0].kind == "return" and o.attrs.get("name") is name and Lin.of(o.attrs.get("octave")) == Lin.of(octv) \
            and paths[0].value is o
        ctx.check(ok, R, "set_note[%s..]" % L, fs.where(), "set_note(%s.., octave)" % L,
                  "name/octave not stored as given: %s, name=%r octave=%r" % ([(p.kind, p.value) for p in paths], o.attrs.get("name"), o.attrs.get("octave")))
    # 'Name-octave' text
    for octext, ov in (("4", 4), ("0", 0), ("10", 10)):
        run = nd.acc_run("R")
        holder = {}

        def mk():
            holder["o"] = note_obj(ci)
            return [holder["o"], AbsStr(["F", run, "-" + octext]), 4, {}]
        paths = paths_of(ctx.repo, fs, mk)
        o = holder["o"]
        nm = o.attrs.get("name")
        ok = len(paths) == 1 and paths[0].kind == "return" and o.attrs.get("octave") == ov and isinstance(nm, AbsStr) \
            and [type(a) for a in nm.atoms] == [str, Run] and nm.atoms[0] == "F" and nm.atoms[1] is run
        ctx.check(ok, R, "set_note[F..-%s]" % octext, fs.where(), "set_note('F..-%s')" % octext,
                  "text 'name-octave' parsed to name=%r octave=%r (%s)" % (nm, o.attrs.get("octave"), [(p.kind, p.value) for p in paths]))
    # rejections
    other = nd.other_class(set(LETTERS) | {"-", "#", "b"}, "FOREIGN")
    acc_head = Ch("ACCHEAD", {"#", "b"})
    bad_tail = nd.other_class({"#", "b", "-"}, "FOREIGNTAIL")
    for label, s in (("foreign-head", AbsStr([other])), ("accidental-head", AbsStr([acc_head])), ("accidental-before-letter", AbsStr([acc_head, "C"])),
                     ("accidentals-around-letter", AbsStr([acc_head, "G", nd.acc_run("A")])), ("foreign-head-before-letter", AbsStr([other, "C"])),
                     ("foreign-tail", AbsStr(["C", bad_tail])), ("two-dashes", "C-4-4"),
                     ("bad-name-with-octave", AbsStr([other, "-4"])), ("accidental-head-with-octave", AbsStr([acc_head, "D-4"]))):
        paths = paths_of(ctx.repo, fs, lambda: [note_obj(ci), s, 4, {}])
        ok = bool(paths) and all(p.kind == "raise" and p.value == "NoteFormatError" for p in paths)
        ctx.check(ok, R, "set_note.rejects[%s]" % label, fs.where(), "set_note(<%s>)" % label,
                  "malformed name gives %s instead of NoteFormatError" % [(p.kind, p.value) for p in paths])
    # a rejected text leaves the note as it was (name, octave, velocity, channel)
    for label, args, kw in (("bad octave text", ["D-x", 4, {}], {}), ("empty octave text", ["Db-", 4, {}], {}), ("bad name, new dynamics", ["H", 4, None], {"velocity": 10, "channel": 7}),
                            ("good name, channel out of range", ["D", 5, None], {"velocity": 100, "channel": 16}),
                            ("good name, velocity out of range via dynamics", ["D", 5, {"velocity": 128, "channel": 3}], {})):
        before = {"name": "C", "octave": 4, "velocity": 64, "channel": 1}

        def mk(args=args):
            return [note_obj(ci, **before)] + list(args)
        try:
            paths = paths_of(ctx.repo, fs, mk, kwargs=dict(kw))
        except CannotDecide as e:
            raise AnalysisError("set_note(<%s>): %s" % (label, e))
        ok, why = bool(paths), "no outcome"
        for p in paths:
            o = p.interp.args[0]
            after = {k: o.attrs.get(k) for k in before}
            if p.kind != "raise":
                ok, why = False, "a malformed request (%s) is accepted: %s %r" % (label, p.kind, p.value)
                break
            if after != before:
                ok, why = False, "the request is rejected (%s) but the note has changed from %s to %s" % (p.value, before, after)
                break
        ctx.check(ok, R, "set_note.rejected-unchanged[%s]" % label, fs.where(), "set_note(<%s>) on C-4 vel 64 ch 1" % label, why)
    # printed form agrees with the reader's grammar
    fr = _method(ctx, ci, "__repr__")
    paths = paths_of(ctx.repo, fr, [note_obj(ci, name="C#", octave=5)])
    ok = len(paths) == 1 and paths[0].kind == "return" and isinstance(paths[0].value, str) and paths[0].value.strip("'\"") == "C#-5"
    ctx.check(ok, R, "__repr__", fr.where(), "repr(Note('C#', 5))", "printed form is %r, the reader's grammar is name-octave" % [(p.kind, p.value) for p in paths])
    # copy construction forwards name, octave, velocity, channel into an independent object
    init = _method(ctx, ci, "__init__")
    run = nd.acc_run("R")
    src_name = AbsStr(["E", run])
    src = note_obj(ci, name=src_name, octave=6, velocity=99, channel=7)
    holder = {}

    def mk():
        holder["o"] = note_obj(ci)
        return [holder["o"], src]
    paths = paths_of(ctx.repo, init, mk)
    o = holder["o"]
    got = {k: o.attrs.get(k) for k in ("name", "octave", "velocity", "channel")}
    ok = len(paths) == 1 and paths[0].kind == "return" and got["name"] is src_name and got["octave"] == 6 and got["velocity"] == 99 and got["channel"] == 7
    ctx.check(ok, R, "copy", init.where(), "Note(other_note)", "copy has %s (%s)" % (got, [(p.kind, p.value) for p in paths]))
    # ... also when the source's octave, velocity and channel are 0 (which are values, not "nothing given")
    for o_, v_, c_ in ((0, 0, 0), (0, 64, 1), (9, 127, 15)):
        src0 = note_obj(ci, name="B#", octave=o_, velocity=v_, channel=c_)
        holder0 = {}

        def mk0(src0=src0, holder0=holder0):
            holder0["o"] = note_obj(ci)
            return [holder0["o"], src0]
        paths = paths_of(ctx.repo, init, mk0)
        o0 = holder0["o"]
        got0 = {k: o0.attrs.get(k) for k in ("name", "octave", "velocity", "channel")}
        ok = len(paths) == 1 and paths[0].kind == "return" and got0 == {"name": "B#", "octave": o_, "velocity": v_, "channel": c_}
        ctx.check(ok, R, "copy[octave %d, velocity %d, channel %d]" % (o_, v_, c_), init.where(), "Note(<B#-%d, velocity %d, channel %d>)" % (o_, v_, c_),
                  "copy has %s (%s)" % (got0, [(p.kind, p.value) for p in paths]))
    # integer construction
    paths = paths_of(ctx.repo, init, lambda: [note_obj(ci), 61])
    ctx.check(len(paths) == 1 and paths[0].kind == "return", R, "init(int)", init.where(), "Note(61)", "Note(int): %s" % [(p.kind, p.value) for p in paths])
    paths = paths_of(ctx.repo, init, lambda: [note_obj(ci), 1.5])
    ok = bool(paths) and all(p.kind == "raise" and p.value == "NoteFormatError" for p in paths)
    ctx.check(ok, R, "init(other)", init.where(), "Note(1.5)", "Note(<float>): %s" % [(p.kind, p.value) for p in paths])


def rule_bounds(ctx, mod, ci):
    R = "R-C10-4"
    for mname, attr, hi in (("set_velocity", "velocity", 127), ("set_channel", "channel", 15)):
        fi = _method(ctx, ci, mname)
        v = Sym(attr, 0, hi)
        holder = {}

        def mk():
            holder["o"] = note_obj(ci)
            return [holder["o"], Lin.of(v)]
        paths = paths_of(ctx.repo, fi, mk)
        ok = len(paths) == 1 and paths[0].kind == "return" and Lin.of(holder["o"].attrs.get(attr)) == Lin.of(v)
        ctx.check(ok, R, "%s.accepts" % mname, fi.where(), "%s(v) for 0 <= v <= %d" % (mname, hi),
                  "in-range value not stored: %s" % [(p.kind, p.value) for p in paths])
        for label, sym in (("below", Sym(attr, -INF, -1)), ("above", Sym(attr, hi + 1, INF))):
            paths = paths_of(ctx.repo, fi, lambda: [note_obj(ci), Lin.of(sym)])
            ok = bool(paths) and all(p.kind == "raise" and p.value == "ValueError" for p in paths)
            ctx.check(ok, R, "%s.rejects.%s" % (mname, label), fi.where(), "%s(v) for v %s 0..%d" % (mname, label, hi),
                      "out-of-range value gives %s" % [(p.kind, p.value) for p in paths])
    # who stores self.velocity / self.channel: the setters (decided above), empty() (constants), and any other
    # method is driven with caller data on both sides of the range
    setters = {"velocity": {"set_velocity", "empty"}, "channel": {"set_channel", "empty"}}
    writers = {"velocity": set(), "channel": set()}
    for mname, m in ci.methods.items():
        for n in ast.walk(m.node):
            tgts = []
            if isinstance(n, ast.Assign):
                tgts = n.targets
            elif isinstance(n, (ast.AugAssign, ast.AnnAssign)):
                tgts = [n.target]
            for t in tgts:
                for x in ast.walk(t):
                    if isinstance(x, ast.Attribute) and isinstance(x.value, ast.Name) and x.value.id == "self" and x.attr in writers:
                        writers[x.attr].add(mname)
    for attr, hi in (("velocity", 127), ("channel", 15)):
        # (set_note and the constructor have call shapes of their own: decided below and in rule_ctor_bounds)
        extra = sorted(writers[attr] - setters[attr] - {"set_note", "__init__"})
        ok, why = True, ""
        for mname in extra:
            # a writer this rule has no call shape for: every parameter an unknown integer
            fi = ci.methods[mname]
            params = [a.arg for a in fi.node.args.args[1:]]
            try:
                paths = paths_of(ctx.repo, fi, lambda: [note_obj(ci, name="C", octave=4, velocity=64, channel=1)] + [Lin.of(Sym("p%d" % i, -INF, INF)) for i in range(len(params))])
            except CannotDecide as e:
                raise AnalysisError("%s stores self.%s and cannot be driven with unknown integers: %s" % (mname, attr, e))
            for p in paths:
                if p.kind != "return":
                    continue
                val = p.interp.args[0].attrs.get(attr)
                try:
                    lo, top = p.interp.lin_interval(Lin.of(val))
                except Exception:
                    lo, top = -INF, INF
                if lo < 0 or top > hi:
                    ok, why = False, "%s(%s) with unknown integers can leave self.%s = %r (%s..%s), outside 0..%d" % (mname, ", ".join(params), attr, val, lo, top, hi)
        ctx.check(ok, R, "writers[%s]" % attr, mod.where(ci.node), "methods storing self.%s: %s" % (attr, sorted(writers[attr])), why)
    # set_note takes caller data by keyword and by the deprecated dynamics dict
    fs = _method(ctx, ci, "set_note")
    for kw, attr, hi in (("velocity", "velocity", 127), ("channel", "channel", 15)):
        for via in ("keyword", "dynamics"):
            for label, sym in (("above", Sym(attr, hi + 1, INF)), ("below", Sym(attr, -INF, -1)), ("inside", Sym(attr, 0, hi))):
                if via == "keyword":
                    mk, kws = (lambda: [note_obj(ci, name="D", octave=2, velocity=64, channel=1), "C", 4, None]), {kw: Lin.of(sym)}
                else:
                    mk, kws = (lambda sym=sym, attr=attr: [note_obj(ci, name="D", octave=2, velocity=64, channel=1), "C", 4, {attr: Lin.of(sym)}]), {}
                try:
                    paths = paths_of(ctx.repo, fs, mk, kwargs=kws)
                except CannotDecide as e:
                    raise AnalysisError("set_note(%s via %s): %s" % (attr, via, e))
                if label == "inside":
                    ok = len(paths) == 1 and paths[0].kind == "return" and Lin.of(paths[0].interp.args[0].attrs.get(attr)) == Lin.of(sym)
                    why = "an in-range %s given to set_note by %s is not stored: %s" % (attr, via, [(p.kind, p.value) for p in paths])
                else:
                    ok = bool(paths) and all(p.kind == "raise" and p.value == "ValueError" for p in paths)
                    why = "a %s %s the range passes set_note (%s): %s" % (attr, label, via, [(p.kind, p.value) for p in paths])
                ctx.check(ok, R, "set_note.%s.%s.%s" % (kw, via, label), fs.where(), "set_note('C', 4, %s=<%s> via %s)" % (kw, label, via), why)


def rule_both_sources(ctx, mod, ci):
    """The same quantity given twice, by keyword and in the deprecated dict: a value outside the range is rejected
    whichever of the two would have won, and the note is left alone."""
    R = "R-C10-4"
    init, fs = _method(ctx, ci, "__init__"), _method(ctx, ci, "set_note")
    for attr, hi in (("velocity", 127), ("channel", 15)):
        for bad_in in ("keyword", "dict"):
            for side, sym in (("above", Sym(attr, hi + 1, INF)), ("below", Sym(attr, -INF, -1))):
                good = 3
                kwv, dv = (Lin.of(sym), good) if bad_in == "keyword" else (good, Lin.of(sym))
                before = {"name": "D", "octave": 5, "velocity": 10, "channel": 2}
                for entry, fi, mk in (("set_note", fs, lambda dv=dv, attr=attr: [note_obj(ci, **before), "C", 4, {attr: dv}]),
                                      ("Note(name)", init, lambda dv=dv, attr=attr: [note_obj(ci), "C", 4, {attr: dv}]),
                                      ("Note(int)", init, lambda dv=dv, attr=attr: [note_obj(ci), 61, 4, {attr: dv}])):
                    try:
                        paths = paths_of(ctx.repo, fi, mk, kwargs={attr: kwv})
                    except CannotDecide as e:
                        raise AnalysisError("%s with %s twice: %s" % (entry, attr, e))
                    ok = bool(paths) and all(p.kind == "raise" and p.value == "ValueError" for p in paths)
                    why = "a %s %s the range given by %s (the other source gives %d) yields %s instead of ValueError" % (
                        attr, side, bad_in, good, [(p.kind, short(repr(p.value), 40)) for p in paths])
                    if ok and entry == "set_note":
                        for p in paths:
                            after = {k: p.interp.args[0].attrs.get(k) for k in before}
                            if after != before:
                                ok, why = False, "the request is rejected but the note has changed from %s to %s" % (before, after)
                    ctx.check(ok, R, "%s.%s.twice[bad %s %s]" % (entry, attr, bad_in, side), fi.where(), "%s(..., {%r: x}, %s=y) with the %s value %s the range" % (entry, attr, attr, bad_in, side), why)


def rule_ctor_bounds(ctx, mod, ci):
    """Velocity / channel given to the constructor are checked and stored whatever the first argument is
    (a name, an integer, another note), through the keyword and through the deprecated dynamics dict."""
    R = "R-C10-4"
    init = _method(ctx, ci, "__init__")
    for what in ("name", "integer", "note"):
        for attr, hi in (("velocity", 127), ("channel", 15)):
            for via in ("keyword", "dynamics"):
                for label, sym in (("above", Sym(attr, hi + 1, INF)), ("below", Sym(attr, -INF, -1)), ("inside", Sym(attr, 0, hi))):
                    def mk(what=what, attr=attr, via=via, sym=sym):
                        first = {"name": "C", "integer": 61, "note": note_obj(ci, name="D", octave=3, velocity=10, channel=2)}[what]
                        args = [note_obj(ci), first] + ([] if what != "name" else [4])
                        if via == "dynamics":
                            args = args + ([4] if what != "name" else []) + [{attr: Lin.of(sym)}]
                        return args
                    kw = {attr: Lin.of(sym)} if via == "keyword" else {}
                    try:
                        paths = paths_of(ctx.repo, init, mk, kwargs=kw)
                    except CannotDecide as e:
                        raise AnalysisError("Note(<%s>, %s via %s): %s" % (what, attr, via, e))
                    if label == "inside":
                        ok = len(paths) == 1 and paths[0].kind == "return" and Lin.of(paths[0].interp.args[0].attrs.get(attr)) == Lin.of(sym)
                        why = "an in-range %s given to Note(<%s>) by %s is not stored: %s, %s=%r" % (
                            attr, what, via, [(p.kind, p.value) for p in paths], attr, paths[0].interp.args[0].attrs.get(attr) if paths else None)
                    else:
                        ok = bool(paths) and all(p.kind == "raise" and p.value == "ValueError" for p in paths)
                        why = "a %s %s the range given to Note(<%s>) by %s gives %s instead of ValueError" % (attr, label, what, via, [(p.kind, p.value) for p in paths])
                    ctx.check(ok, R, "Note(%s).%s.%s.%s" % (what, attr, via, label), init.where(), "Note(<%s>, %s=<%s> via %s)" % (what, attr, label, via), why)


def rule_hz(ctx, mod, ci):
    R = "R-C10-5"
    th, fh = _method(ctx, ci, "to_hertz"), _method(ctx, ci, "from_hertz")
    key = "%s.Note.__int__" % NM

    def run_all(it):
        res = {}
        for pitch in (440, 415, 466.16):
            prev = None
            for n in range(0, 128):
                src = note_obj(ci, name="C", octave=0)
                hz = it.call_function(th, [src, pitch], {}, None) if False else None
            res[pitch] = None
        return res
    # specialisation: int summary returns the concrete integer we choose
    bad = []
    checked = 0
    for pitch in (440, 415, 466.16):
        for n in range(0, 128):
            def f(it, n=n, pitch=pitch):
                it.summaries = {key: lambda it_, args, kw, node: n}
                src = note_obj(ci)
                hz = it.call_function(th, [src, pitch], {})
                out = []
                for cents in (-40, 0, 40):
                    dst = note_obj(ci)
                    it.call_function(fh, [dst, hz * 2 ** (cents / 1200.0), pitch], {})
                    nm, oc = dst.attrs.get("name"), dst.attrs.get("octave")
                    out.append(nd.pitch_number(nm, oc) if isinstance(nm, str) and isinstance(oc, int) else None)
                return hz, out
            ps = explore(lambda ch: Interp(ctx.repo, ch), f)
            checked += 1
            if len(ps) != 1 or ps[0].kind != "return":
                bad.append((pitch, n, [(p.kind, p.value) for p in ps]))
                continue
            hz, back = ps[0].value
            want_hz = pitch * 2 ** ((n - 57) / 12.0)
            if not isinstance(hz, float) or abs(hz / want_hz - 1) > 1e-9 or back != [n, n, n]:
                bad.append((pitch, n, hz, want_hz, back))
    ctx.check(not bad, R, "hz.roundtrip", th.where(), "from_hertz(to_hertz(n)) for n in 0..127",
              "%d of %d (pitch, note) pairs break 'A-4 at the standard pitch, doubling per octave, reads back the same note "
              "(also detuned by +-40 cents)': %s" % (len(bad), checked, bad[:3]))
    # one run, several standard pitches, several notes of equal pitch: every answer follows its own arguments only
    def history(it):
        out = []
        for name, octave, pitch in (("A", 4, None), ("A", 4, 415), ("A", 5, 432), ("A", 4, None), ("A", 5, 415), ("Bbb", 4, 466), ("G##", 4, 440), ("A", 3, 415), ("A", 4, 415)):
            n = note_obj(ci, name=name, octave=octave)
            out.append(it.call_function(th, [n] + ([pitch] if pitch is not None else []), {}))
        back = []
        for hz, pitch in ((440.0, 440), (415.0, 415), (440.0, 415), (415.0, 440)):
            dst = note_obj(ci)
            it.call_function(fh, [dst, hz, pitch], {})
            back.append(nd.pitch_number(dst.attrs.get("name"), dst.attrs.get("octave")))
        return out, back
    try:
        ps = explore(lambda ch: Interp(ctx.repo, ch), history)
    except CannotDecide as e:
        raise AnalysisError("to_hertz / from_hertz in sequence: %s" % e)
    want = [440.0, 415.0, 864.0, 440.0, 830.0, 466.0, 440.0, 207.5, 415.0]
    ok = len(ps) == 1 and ps[0].kind == "return" and all(isinstance(x, float) and abs(x / w - 1) < 1e-12 for x, w in zip(ps[0].value[0], want)) \
        and ps[0].value[1] == [57, 57, 58, 56]
    ctx.check(ok, R, "hz.history", th.where(), "to_hertz under standard pitches default, 415, 432, default, 415, 466, 440, 415, 415 in one run; from_hertz under 440 / 415",
              "gives %s, expected %s and the notes 57, 57, 58, 56: an answer depends on an earlier request" % ([(p.kind, short(repr(p.value), 200)) for p in ps], want))
    d1 = ctx.repo.try_const(mod, th.defaults.get("standard_pitch"))
    d2 = ctx.repo.try_const(mod, fh.defaults.get("standard_pitch"))
    ctx.check(d1 == 440, R, "hz.default.to", th.where(), "to_hertz default pitch", "default standard pitch is %r" % (d1,))
    ctx.check(d2 == 440, R, "hz.default.from", fh.where(), "from_hertz default pitch", "default standard pitch is %r" % (d2,))


def rule_helmholtz(ctx, mod, ci):
    R = "R-C10-6"
    tw, fr = _method(ctx, ci, "to_shorthand"), _method(ctx, ci, "from_shorthand")
    # writer, symbolic in the octave
    shapes = {}
    for L in "CB":
        run = nd.acc_run("R")
        o = Sym("octave", 0, INF)
        obj = note_obj(ci, name=AbsStr([L, run]), octave=Lin.of(o))
        try:
            paths = paths_of(ctx.repo, tw, [obj])
        except CannotDecide as e:
            raise AnalysisError("to_shorthand: %s" % e)
        ok, why = bool(paths), "no outcome"
        for p in paths:
            lo, hi = p.interp.lin_interval(Lin.of(o))
            v = p.value if not isinstance(p.value, str) else AbsStr([p.value])
            if p.kind != "return" or not isinstance(v, AbsStr):
                ok, why = False, "%s %r" % (p.kind, p.value)
                break
            atoms = p.interp.norm_str(v).atoms
            letter = atoms[0] if atoms and isinstance(atoms[0], str) else None
            marks = atoms[2:] if len(atoms) >= 2 and atoms[1] is run else None
            if letter is None or marks is None or letter[0].upper() != L or len(letter) != 1:
                ok, why = False, "octave %s..%s renders as %r: not letter + accidentals + octave marks" % (lo, hi, v)
                break
            want_upper = hi < 3
            want_lower = lo >= 3
            if (letter.isupper() and not want_upper) or (letter.islower() and not want_lower):
                ok, why = False, "octave %s..%s renders the letter as %r (upper case exactly below octave 3)" % (lo, hi, letter)
                break
            n_commas, n_primes, good = Lin({}, 0), Lin({}, 0), True
            for m in marks:
                if isinstance(m, Rep) and set(m.lit) == {","}:
                    n_commas = n_commas + m.count.scale(len(m.lit))
                elif isinstance(m, Rep) and set(m.lit) == {"'"}:
                    n_primes = n_primes + m.count.scale(len(m.lit))
                elif isinstance(m, str) and set(m) <= {","}:
                    n_commas = n_commas + len(m)
                elif isinstance(m, str) and set(m) <= {"'"}:
                    n_primes = n_primes + len(m)
                else:
                    good = False
            exp_commas = (Lin.of(2) - Lin.of(o)) if hi <= 2 else Lin.of(0)
            exp_primes = (Lin.of(o) - 3) if lo >= 3 else Lin.of(0)
            if not good or not nd.same(p.interp, n_commas, exp_commas) or not nd.same(p.interp, n_primes, exp_primes):
                ok, why = False, "octave %s..%s gets %s commas and %s primes, expected %s and %s" % (lo, hi, n_commas, n_primes, exp_commas, exp_primes)
                break
        ctx.check(ok, R, "to_shorthand[%s]" % L, tw.where(), "Note(%s.., octave).to_shorthand()" % L, why)
    # reader on the writer's shapes
    set_note = _method(ctx, ci, "set_note")
    for L in LETTERS:
        for low in (True, False):
            k = Sym("k", 0, INF)
            letter = L.lower() if low else L
            mark = "'" if low else ","
            base_oct = 3 if low else 2

            def attempt(acc, letter=letter, mark=mark):
                holder = {}

                def mk():
                    holder["o"] = note_obj(ci)
                    return [holder["o"], AbsStr([letter, acc, Rep(mark, Lin.of(k))])]
                paths = paths_of(ctx.repo, fr, mk)
                return paths, holder["o"]
            run = nd.acc_run("R")
            shapes = [("any accidentals", run, nd.run_net(run))]
            try:
                pre = {"any accidentals": attempt(run)}
            except CannotDecide as e:
                ctx.note(R, "from_shorthand(%s..): accidental run not summarisable (%s); specialised to '', '#', 'b', '##', 'bb'" % (letter, e))
                pre = {}
                shapes = [(repr(a), a, Lin.of(a.count("#") - a.count("b"))) for a in ("", "#", "b", "##", "bb")]
            ok, why = True, ""
            for label, acc, net in shapes:
                try:
                    paths, o = pre[label] if label in pre else attempt(acc)
                except CannotDecide as e:
                    raise AnalysisError("from_shorthand(%s%s..): %s" % (letter, label, e))
                for p in paths:
                    if p.kind != "return":
                        ok, why = False, "with %s: %s %r" % (label, p.kind, p.value)
                        break
                    o = p.interp.args[0]
                    nm, oc = o.attrs.get("name"), o.attrs.get("octave")
                    try:
                        head, net_out, _ = decompose(nm, p.interp)
                    except nd.Shape as e:
                        ok, why = False, "with %s the name read back is %r (%s)" % (label, nm, e)
                        break
                    want_oct = Lin.of(base_oct) + (Lin.of(k) if low else -Lin.of(k))
                    if head != L or not nd.same(p.interp, net_out, net) or Lin.of(oc) is None or not nd.same(p.interp, Lin.of(oc), want_oct):
                        ok, why = False, "%s%s + k marks reads back as name %r octave %r, expected %s with the same accidentals in octave %s" % (
                            letter, label, nm, oc, L, want_oct)
                        break
                if not ok:
                    break
            ctx.check(ok, R, "from_shorthand[%s]" % letter, fr.where(), "Note().from_shorthand(%s<accidentals><marks>)" % letter, why)
    # text that is no Helmholtz spelling of a note is rejected, as the same junk is in a plain name, and leaves the note alone
    junk = [("foreign character after the letter", "c$"), ("letters after the letter", "cis"), ("digit", "c4"), ("accidental before the letter", "#c"),
            ("two note letters", "cd"), ("foreign character after the marks", "c'x"), ("foreign character after the marks (upper)", "C,x"),
            ("no note letter", "h"), ("marks only", ",,"), ("empty", "")]
    for label, text in junk:
        before = {"name": "G", "octave": 6, "velocity": 64, "channel": 1}
        try:
            paths = paths_of(ctx.repo, fr, lambda: [note_obj(ci, **before), text])
        except CannotDecide as e:
            raise AnalysisError("from_shorthand(%r): %s" % (text, e))
        ok, why = bool(paths), "no outcome"
        for p in paths:
            o = p.interp.args[0]
            after = {k: o.attrs.get(k) for k in before}
            if p.kind != "raise":
                ok, why = False, "%r (%s) is read as %s-%s instead of being rejected" % (text, label, after["name"], after["octave"])
                break
            if after != before:
                ok, why = False, "%r is rejected (%s) but the note has changed to %s" % (text, p.value, after)
                break
        ctx.check(ok, R, "from_shorthand.rejects[%s]" % label, fr.where(), "Note('G', 6).from_shorthand(%r)" % text, why)
