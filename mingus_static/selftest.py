"""Variant corpus runner (DESIGN section 4).

Each variant is a single textual edit of one file of the package, applied to a scratch copy of the
*current* tree (outside /repo and /verif, removed immediately).  ``expect`` is

* "fire"   -- a breaking edit: the property's check must exit 1 and name the expected rule;
* "silent" -- a behaviour-preserving edit: the check must not report a violation.

A rule that misses its breaking variant or fires on a preserving one is an ANALYSIS-ERROR (the
checker is wrong), never a verdict about /repo.  Variants whose anchor text is no longer present in the
current tree are skipped (the tree was edited), as are "silent" expectations when the unmodified
tree itself is already in violation.
"""
from __future__ import annotations

import importlib
import os
import shutil
import subprocess
import sys
import tempfile
from concurrent.futures import ThreadPoolExecutor

HERE = os.path.dirname(os.path.dirname(os.path.abspath(__file__)))


def load_variants(prop):
    try:
        m = importlib.import_module("variants.%s" % prop.lower())
        out = list(m.VARIANTS)
    except ModuleNotFoundError:
        out = []
    return out + load_seeded(prop)


def load_seeded(prop):
    """Seeded changes written by independent agents (seeded/<id>/patch.diff + meta.json); those the checks are
    expected to catch are replayed as breaking variants, the ones recorded as not decided are left out."""
    import json
    root = os.path.join(HERE, "seeded")
    out = []
    for d in sorted(os.listdir(root)) if os.path.isdir(root) else []:
        mp = os.path.join(root, d, "meta.json")
        if not os.path.isfile(mp):
            continue
        with open(mp, encoding="utf-8") as fh:
            meta = json.load(fh)
        caught = meta.get("caught_by", {})
        if meta.get("reconfirmed", {}).get("applies") is False:
            continue  # overtaken by a later fix: commit in /repo (kept for the record)
        if meta.get("kind") == "refactor":
            # a behaviour-preserving refactoring of this property's code: the check must stay silent
            if meta.get("property") == prop and not meta.get("undecided_by", {}).get(prop):
                out.append({"id": "seed-" + d, "patch": os.path.join(root, d, "patch.diff"), "expect": "silent",
                            "why": meta.get("summary", ""), "file": None})
            continue
        if prop not in caught or meta.get("property") != prop:
            continue  # replayed under the seed's own property only (catches by sibling checks are incidental)
        out.append({"id": "seed-" + d, "patch": os.path.join(root, d, "patch.diff"), "expect": "fire",
                    "rule": caught[prop][0] if caught[prop] else None, "why": meta.get("summary", ""), "file": None})
    return out


def _run_check(prop, root):
    env = dict(os.environ)
    env["MINGUS_STATIC_NO_EVIDENCE"] = "1"
    env.pop("VERIF_TIER", None)
    p = subprocess.run([sys.executable, os.path.join(HERE, "check"), prop, "--tier", "quick", "--repo", root],
                       capture_output=True, text=True, env=env, timeout=600)
    return p.returncode, p.stdout + p.stderr


def _one_patch(prop, repo_root, base_tmp, v):
    d = tempfile.mkdtemp(prefix="v_", dir=base_tmp)
    try:
        shutil.copytree(os.path.join(repo_root, "mingus"), os.path.join(d, "mingus"),
                        ignore=shutil.ignore_patterns("__pycache__", "*.pyc"))
        p = subprocess.run(["git", "apply", "--unsafe-paths", "--directory=" + d, v["patch"]], cwd=d, capture_output=True, text=True)
        if p.returncode != 0:
            p = subprocess.run(["patch", "-p1", "-s", "-i", v["patch"]], cwd=d, capture_output=True, text=True)
            if p.returncode != 0:
                return ("skipped", v, "patch no longer applies")
        rc, out = _run_check(prop, d)
    finally:
        shutil.rmtree(d, ignore_errors=True)
    return ("ran", v, (rc, out))


def _one(prop, repo_root, base_tmp, v):
    if v.get("patch"):
        return _one_patch(prop, repo_root, base_tmp, v)
    rel = v["file"]
    src_path = os.path.join(repo_root, rel)
    try:
        with open(src_path, encoding="utf-8") as fh:
            src = fh.read()
    except OSError:
        return ("skipped", v, "file missing")
    edits = v.get("edits") or [(v["old"], v["new"])]
    new_src = src
    for old, new in edits:
        if new_src.count(old) != 1 and not (v.get("all") and new_src.count(old) > 1):
            return ("skipped", v, "anchor text occurs %d times" % new_src.count(old))
        new_src = new_src.replace(old, new)
    try:
        import warnings
        with warnings.catch_warnings():
            warnings.simplefilter("ignore")
            compile(new_src, rel, "exec")
    except SyntaxError as e:
        return ("error", v, "variant does not compile: %s" % e)
    d = tempfile.mkdtemp(prefix="v_", dir=base_tmp)
    try:
        shutil.copytree(os.path.join(repo_root, "mingus"), os.path.join(d, "mingus"),
                        ignore=shutil.ignore_patterns("__pycache__", "*.pyc"))
        with open(os.path.join(d, rel), "w", encoding="utf-8") as fh:
            fh.write(new_src)
        rc, out = _run_check(prop, d)
    finally:
        shutil.rmtree(d, ignore_errors=True)
    return ("ran", v, (rc, out))


def run_for(prop, repo_root="/repo", jobs=16, only=None):
    sys.path.insert(0, HERE)
    variants = load_variants(prop)
    if only:
        variants = [v for v in variants if v["id"] in only]
    errors, rows = [], []
    if not variants:
        return {"summary": {"variants": 0}, "errors": [], "rows": []}
    base_tmp = tempfile.mkdtemp(prefix="mingus_static_")
    try:
        base_rc, base_out = _run_check(prop, repo_root)
        with ThreadPoolExecutor(max_workers=jobs) as ex:
            results = list(ex.map(lambda v: _one(prop, repo_root, base_tmp, v), variants))
    finally:
        shutil.rmtree(base_tmp, ignore_errors=True)
    n_fire = n_silent = n_skip = 0
    for status, v, info in results:
        if status == "skipped":
            n_skip += 1
            rows.append((v["id"], "skipped", info))
            continue
        if status == "error":
            errors.append("self-test variant %s: %s" % (v["id"], info))
            continue
        rc, out = info
        if v["expect"] == "fire":
            want_rule = v.get("rule")
            viol_rules = [ln for ln in out.splitlines() if ln.strip().startswith("rule=")]
            named = want_rule is None or any(("rule=%s " % want_rule) in ln for ln in viol_rules)
            if rc == 1 and named:
                n_fire += 1
                rows.append((v["id"], "fired", want_rule))
            elif base_rc != 0 and rc == base_rc:
                n_skip += 1
                rows.append((v["id"], "skipped", "baseline tree already exits %d" % base_rc))
            else:
                errors.append("self-test: breaking variant %s (%s) was not reported (exit %d%s)" % (
                    v["id"], v.get("why", ""), rc, "" if named else ", rule %s not named" % want_rule))
                rows.append((v["id"], "MISSED", out[-400:]))
        else:
            if base_rc != 0:
                n_skip += 1
                rows.append((v["id"], "skipped", "baseline tree already exits %d" % base_rc))
            elif rc == 0:
                n_silent += 1
                rows.append((v["id"], "silent", None))
            else:
                errors.append("self-test: behaviour-preserving variant %s (%s) made the check exit %d" % (
                    v["id"], v.get("why", ""), rc))
                rows.append((v["id"], "FALSE-ALARM", out[-600:]))
    return {"summary": {"variants": len(variants), "fired": n_fire, "silent": n_silent, "skipped": n_skip,
                        "failed": len(errors)},
            "errors": errors, "rows": rows}


if __name__ == "__main__":
    import argparse
    ap = argparse.ArgumentParser()
    ap.add_argument("props", nargs="+")
    ap.add_argument("--repo", default="/repo")
    ap.add_argument("--only", nargs="*")
    ap.add_argument("-v", action="store_true")
    a = ap.parse_args()
    bad = 0
    for p in a.props:
        r = run_for(p.upper(), a.repo, only=a.only)
        print(p, r["summary"])
        for row in r["rows"]:
            if a.v or row[1] in ("MISSED", "FALSE-ALARM", "skipped"):
                print("  ", row[0], row[1], row[2] if row[1] != "fired" else "")
        for e in r["errors"]:
            print("  ERROR", e)
        bad += len(r["errors"])
    sys.exit(1 if bad else 0)
