#!/usr/bin/env python3
"""Round-2 importer: /tmp/seed2/Cxx/_seed/{change1,2.diff, demo1,2.py, refactor1,2.diff, equiv1,2.py, notes.md} + the
confirmation log /tmp/seed2/confirm/Cxx.txt -> /verif/seeded/Cxx-3, Cxx-4 (breaking) and Cxx-r1, Cxx-r2 (refactor).
usage: tools/import_seeds2.py Cxx [Cxx ...]"""
import json, os, re, shutil, sys
SRC, DST = "/tmp/seed2", "/verif/seeded"


def section(notes, names):
    """text of the notes section whose header mentions one of names"""
    parts = re.split(r"(?m)^(#+\s.*)$", notes)
    for j in range(1, len(parts) - 1, 2):
        if any(n.lower() in parts[j].lower() for n in names):
            return parts[j + 1].strip()
    return ""


def field(text, name):
    m = re.search(r"(?ims)^[-*]\s*\**%s\**\s*:?\**\s*(.*?)(?=^\s*[-*]\s*\**[A-Z][\w /]*\**\s*:|\Z)" % name, text)
    return re.sub(r"\s+", " ", m.group(1)).strip() if m else ""


for p in sys.argv[1:]:
    sd = os.path.join(SRC, p, "_seed")
    notes = open(os.path.join(sd, "notes.md"), encoding="utf-8").read() if os.path.isfile(os.path.join(sd, "notes.md")) else ""
    conf = open(os.path.join(SRC, "confirm", p + ".txt"), encoding="utf-8").read()
    for kind, k, sid in (("breaking", 1, p + "-3"), ("breaking", 2, p + "-4"), ("refactor", 1, p + "-r1"), ("refactor", 2, p + "-r2")):
        stem = "change" if kind == "breaking" else "refactor"
        diff = os.path.join(sd, "%s%d.diff" % (stem, k))
        if not os.path.isfile(diff):
            print(sid, "missing")
            continue
        lines = [ln for ln in conf.splitlines() if ln.startswith("%s%d " % (stem, k)) or (kind == "refactor" and ln.startswith("PASS"))]
        mine = [ln for ln in conf.splitlines() if ln.startswith("%s%d " % (stem, k))]
        ok_apply = any("applies" in ln for ln in mine)
        ok_suite = any("190 passed" in ln and "1 error" in ln for ln in mine)
        if kind == "breaking":
            ok_demo = any("demo-clean exit 0" in ln for ln in mine) and any("demo-seeded exit 1" in ln for ln in mine)
        else:
            ok_demo = any("equiv exit 0" in ln for ln in mine)
        if not (ok_apply and ok_suite and ok_demo):
            print(sid, "NOT CONFIRMED:", mine)
            continue
        d = os.path.join(DST, sid)
        os.makedirs(d, exist_ok=True)
        shutil.copy(diff, os.path.join(d, "patch.diff"))
        shutil.copy(os.path.join(sd, ("demo%d.py" if kind == "breaking" else "equiv%d.py") % k), os.path.join(d, "demo.py" if kind == "breaking" else "equiv.py"))
        text = section(notes, ["%s%d" % (stem, k), "%s %d" % (stem, k), "%s_%d" % (stem, k)])
        files = sorted(set(re.findall(r"^\+\+\+ b/(\S+)", open(diff).read(), flags=re.M)))
        old = {}
        if os.path.isfile(os.path.join(d, "meta.json")):
            old = json.load(open(os.path.join(d, "meta.json")))
        meta = {
            "id": sid, "property": p, "kind": kind, "round": 2, "files": files,
            "summary": field(text, "What") or field(text, "Change") or re.sub(r"\s+", " ", text)[:300],
            "clause_broken": (field(text, "Clause broken") or field(text, "Clause") or field(text, "Breaks")) if kind == "breaking" else "",
            "needs_to_manifest": field(text, "Needs") if kind == "breaking" else "",
            "why_equivalent": (field(text, "Why equivalent") or field(text, "Equivalent") or field(text, "Why")) if kind == "refactor" else "",
            "origin": "written by an independent sub-agent that saw only the property text (and one-line descriptions of the round-1 changes to avoid) and its own scratch worktree of /repo",
            "confirmed_by_me": {
                "how": ("in the scratch worktree /tmp/seed2/%s (HEAD = /repo HEAD): " % p) + (
                    "demo on the clean tree; git apply patch.diff; the pinned suite; demo again; git checkout -- ." if kind == "breaking" else
                    "git apply patch.diff; the pinned suite; equiv.py <pristine git-archive copy> <worktree>; git checkout -- ."),
                "log": mine + ([ln for ln in conf.splitlines() if ln.startswith("PASS")][k - 1:k] if kind == "refactor" else []),
                "applies": ok_apply, "suite_at_baseline": ok_suite,
            },
            "agent_notes": text,
        }
        for keep in ("caught_by", "gave_up", "first_report", "checked_with"):
            if keep in old:
                meta[keep] = old[keep]
        json.dump(meta, open(os.path.join(d, "meta.json"), "w"), indent=1, sort_keys=True)
        print(sid, kind, "|", meta["summary"][:110])
