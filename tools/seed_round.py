#!/usr/bin/env python3
"""A round of seeded changes written by fresh agents (one per property, own scratch worktree, nothing from /verif).
  tools/seed_round.py prompts <outdir>            write <outdir>/full_Cxx.txt and create the worktrees <outdir>/Cxx
  tools/seed_round.py import  <outdir> [Cxx ...]  confirm every delivered change in a temporary worktree of /repo HEAD
                                                  (applies; pinned suite at the baseline; demo passes without / fails with
                                                  the change, or the equivalence script passes) and import the confirmed
                                                  ones as seeded/Cxx-<next number> (breaking) / Cxx-r<next number> (refactor)
Deliverables expected in <outdir>/Cxx/_seed/: change1.diff demo1.py change2.diff demo2.py refactor1.diff equiv1.py [refactor2.diff equiv2.py] notes.txt"""
import json
import os
import re
import shutil
import subprocess
import sys
import tempfile

HERE = os.path.dirname(os.path.dirname(os.path.abspath(__file__)))
sys.path.insert(0, os.path.join(HERE, "tools"))
from gen_hunt_prompts import prop_text  # noqa: E402

SUITE = ["/venv/bin/python", "-m", "pytest", "-ra", "-q", "-p", "no:cacheprovider", "--timeout=900", "--continue-on-collection-errors"]


def sh(*a, **k):
    return subprocess.run(a, capture_output=True, text=True, **k)


def existing(prop):
    out = []
    for d in sorted(os.listdir(os.path.join(HERE, "seeded"))):
        mp = os.path.join(HERE, "seeded", d, "meta.json")
        if d.startswith(prop + "-") and os.path.isfile(mp):
            m = json.load(open(mp))
            out.append((d, m.get("kind", "breaking"), re.sub(r"\s+", " ", m.get("summary") or m.get("what") or "")[:160], m.get("files", [])))
    return out


def prompts(out):
    os.makedirs(out, exist_ok=True)
    props = [json.loads(l) for l in open(os.path.join(HERE, "properties.jsonl")) if l.strip()]
    head = sh("git", "-C", "/repo", "rev-parse", "--short", "HEAD").stdout.strip()
    for d in props:
        p = d["id"]
        W = os.path.join(out, p)
        files = d.get("anchors", {}).get("files", [])
        recent = sh("git", "-C", "/repo", "log", "--format=%s", "--grep=^fix:", "-n", "40", "--", *files).stdout.strip().splitlines()
        prev = "\n".join("  - (%s) %s" % (k, s) for _, k, s, _ in existing(p) if s) or "  (none)"
        text = f"""You are helping to evaluate a verification tool for the open-source Python library python-mingus (music theory: notes, intervals, chords, scales, containers, MIDI, LilyPond/MusicXML/tablature exporters). The tool claims to detect code changes that break a stated semantic property of the library, and to stay silent on changes that do not. Your job is to write realistic test changes for it. You never see the tool.

Your own scratch git worktree of the library is at {W} (a detached checkout of commit {head}; work ONLY inside it; never touch /repo or /verif and do not read anything under /verif or any other directory of /tmp). Python is /venv/bin/python (3.12); run things as `cd {W} && /venv/bin/python ...` so that the worktree's `mingus` package is the one imported, and use PYTHONPATH={W} for scripts that live elsewhere. The library's own test suite is run as: cd {W} && /venv/bin/python -m pytest -ra -q -p no:cacheprovider --timeout=900 --continue-on-collection-errors   (baseline on the unchanged tree: 190 passed and 1 collection error in tests/integration/test_fluidsynth.py, which is expected).

Deliver, inside {W}/_seed/ (create it; write every file with your shell or editor tools):
  1. change1.diff and change2.diff: two DIFFERENT realistic code changes (`git diff` output against the unchanged tree, applying with `git apply`) that each BREAK the property below -- the kind of mistake a maintainer could make while refactoring, optimising, "simplifying" or extending the code -- while the library still imports and the test suite above still gives exactly the baseline result. Prefer functions and clauses of the property that the existing changes listed below do NOT touch yet (look through all the code the property names, including the less used entry points), and places the list of recent repairs below has touched (a partial or subtly wrong re-implementation of a repaired function is ideal); touch different functions / clauses in the two changes, keep each change small (a few lines), and do not merely revert a repair wholesale. With each, a demonstration demo1.py / demo2.py: a standalone script, run as `PYTHONPATH={W} /venv/bin/python demoK.py`, that exits 0 on the unchanged tree and exits 1 with the change applied, printing the calls, the observed and the expected result, and the clause of the property that is violated. The demonstration must use its own arithmetic for the expected values, not another library function that the change also affects.
  2. refactor1.diff and refactor2.diff: TWO different behaviour-preserving changes (in different functions) of code the property is about (restructure a loop, rename locals, replace an idiom by an equivalent one, split or merge helpers, reorder independent statements, change a data structure for an equivalent one) of a realistic size (10-40 changed lines) that leaves every observable behaviour the property speaks about identical, each with its equivalence script equiv1.py / equiv2.py: a script run as `/venv/bin/python equivK.py <dir of an unchanged checkout> <dir of the changed checkout>` that imports the two copies in two subprocesses, drives a few thousand inputs from the property's scope through both and exits 0 iff all results (values and exception types) are identical. The test suite must still give the baseline result.
  3. notes.txt with four sections headed `## change1`, `## change2`, `## refactor1`, `## refactor2`, each with bullet lines `- What: ...`, `- Clause broken: ...` (changes) or `- Why equivalent: ...` (refactor), `- Needs: ...` (what an observer needs to do to see the breakage).
Check each of your deliverables yourself (apply with `git apply`, run the suite, run the demo / equivalence script, `git checkout -- .` afterwards) and leave the worktree's tracked files unmodified at the end (`git status --short` must show only `?? _seed/`). Report back one line per deliverable.

Changes of this kind that exist already for this property (write different ones):
{prev}

Recent repairs in the code this property is about (newest first):
{chr(10).join("  - " + r for r in recent) or "  (none)"}

{prop_text(d)}
"""
        open(os.path.join(out, "full_%s.txt" % p), "w").write(text)
        sh("git", "-C", "/repo", "worktree", "add", "--detach", W)
    print("prompts for %d properties in %s at /repo %s" % (len(props), out, head))


def notes_section(notes, name):
    parts = re.split(r"(?m)^(#+\s.*)$", notes)
    for j in range(1, len(parts) - 1, 2):
        if name.lower() in parts[j].lower().replace(" ", ""):
            return parts[j + 1].strip()
    return ""


def field(text, name):
    m = re.search(r"(?ims)^[-*]\s*\**%s\**\s*:?\**\s*(.*?)(?=^\s*[-*]\s*\**[A-Z][\w /]*\**\s*:|\Z)" % name, text)
    return re.sub(r"\s+", " ", m.group(1)).strip() if m else ""


def next_id(prop, refactor):
    nums = []
    for d in os.listdir(os.path.join(HERE, "seeded")):
        m = re.match(r"%s-(r?)(\d+)$" % prop, d)
        if m and bool(m.group(1)) == refactor:
            nums.append(int(m.group(2)))
    return "%s-%s%d" % (prop, "r" if refactor else "", max(nums or [0]) + 1)


def do_import(out, props):
    head = sh("git", "-C", "/repo", "rev-parse", "--short", "HEAD").stdout.strip()
    base = tempfile.mkdtemp(prefix="seedimport_")
    wt, pristine = os.path.join(base, "wt"), os.path.join(base, "pristine")
    try:
        sh("git", "-C", "/repo", "worktree", "add", "--detach", wt)
        os.makedirs(pristine)
        subprocess.run("git -C /repo archive HEAD | tar -x -C %s" % pristine, shell=True, check=True)
        for p in props:
            sd = os.path.join(out, p, "_seed")
            if not os.path.isdir(sd):
                print(p, "no deliverables")
                continue
            notes = ""
            for nm in ("notes.txt", "notes.md"):
                if os.path.isfile(os.path.join(sd, nm)):
                    notes = open(os.path.join(sd, nm), encoding="utf-8").read()
            for stem, k, refactor in (("change", 1, False), ("change", 2, False), ("refactor", 1, True), ("refactor", 2, True)):
                diff = os.path.join(sd, "%s%d.diff" % (stem, k))
                script = os.path.join(sd, ("equiv%d.py" if refactor else "demo%d.py") % k)
                if not (os.path.isfile(diff) and os.path.isfile(script)):
                    if not (refactor and k == 2):
                        print(p, stem, k, "missing")
                    continue
                sh("git", "-C", wt, "checkout", "--", ".")
                log = {}
                if not refactor:
                    log["demo_clean_exit"] = sh("/venv/bin/python", script, env=dict(os.environ, PYTHONPATH=wt), cwd=base, timeout=1800).returncode
                r = sh("git", "-C", wt, "apply", diff)
                log["applies"] = r.returncode == 0
                if log["applies"]:
                    t = sh(*SUITE, cwd=wt).stdout.strip().splitlines()
                    log["suite"] = t[-1] if t else ""
                    log["suite_at_baseline"] = "190 passed" in log["suite"] and "1 error" in log["suite"] and "failed" not in log["suite"]
                    if refactor:
                        log["equiv_exit"] = sh("/venv/bin/python", script, pristine, wt, cwd=base, timeout=3600).returncode
                    else:
                        log["demo_seeded_exit"] = sh("/venv/bin/python", script, env=dict(os.environ, PYTHONPATH=wt), cwd=base, timeout=1800).returncode
                ok = log.get("applies") and log.get("suite_at_baseline") and (log.get("equiv_exit") == 0 if refactor else (log.get("demo_clean_exit") == 0 and log.get("demo_seeded_exit") == 1))
                if not ok:
                    print(p, stem, k, "NOT CONFIRMED", log)
                    continue
                sid = next_id(p, refactor)
                d = os.path.join(HERE, "seeded", sid)
                os.makedirs(d)
                shutil.copy(diff, os.path.join(d, "patch.diff"))
                shutil.copy(script, os.path.join(d, "equiv.py" if refactor else "demo.py"))
                text = notes_section(notes, "%s%d" % (stem, k))
                files = sorted(set(re.findall(r"^\+\+\+ b/(\S+)", open(diff).read(), flags=re.M)))
                meta = {"id": sid, "property": p, "kind": "refactor" if refactor else "breaking", "round": int(os.environ.get("SEED_ROUND", "7")), "files": files,
                        "summary": field(text, "What") or re.sub(r"\s+", " ", text)[:300],
                        "clause_broken": "" if refactor else field(text, "Clause broken"),
                        "needs_to_manifest": field(text, "Needs"),
                        "why_equivalent": field(text, "Why equivalent") if refactor else "",
                        "origin": "written by an independent sub-agent that saw only the property text, one-line descriptions of the existing changes and the subjects of recent repairs, in its own scratch worktree of /repo",
                        "confirmed_by_me": {"how": "tools/seed_round.py import: temporary worktree of /repo HEAD; demo on the clean tree; git apply; pinned suite; demo / equivalence script", "log": log},
                        "reconfirmed": {"repo_head": head, "applies": True, "suite": log.get("suite"), "suite_at_baseline": True,
                                        "demo_or_equiv_exit": log.get("equiv_exit") if refactor else log.get("demo_seeded_exit")},
                        "agent_notes": text}
                json.dump(meta, open(os.path.join(d, "meta.json"), "w"), indent=1, sort_keys=True)
                print(sid, meta["kind"], "|", meta["summary"][:110])
    finally:
        sh("git", "-C", "/repo", "worktree", "remove", "--force", wt)
        shutil.rmtree(base, ignore_errors=True)
        sh("git", "-C", "/repo", "worktree", "prune")


if __name__ == "__main__":
    if len(sys.argv) >= 3 and sys.argv[1] == "prompts":
        prompts(sys.argv[2])
    elif len(sys.argv) >= 3 and sys.argv[1] == "import":
        do_import(sys.argv[2], sys.argv[3:] or ["C%02d" % i for i in range(1, 21)])
    else:
        print(__doc__)
