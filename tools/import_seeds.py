#!/usr/bin/env python3
"""One-off importer: /tmp/seed/Cxx/_seed/{changeN.diff,demoN.py,notes.md} + my confirmation log -> /verif/seeded/Cxx-N/."""
import json, os, re, shutil, sys
SRC, DST = "/tmp/seed", "/verif/seeded"
for i in range(1, 21):
    p = "C%02d" % i
    notes = open(os.path.join(SRC, p, "_seed", "notes.md"), encoding="utf-8").read()
    conf = open(os.path.join(SRC, "confirm", p + ".txt"), encoding="utf-8").read()
    # split the agent's notes per change
    parts = re.split(r"(?m)^#+\s*.*?change\s*_?([12]).*$", notes, flags=re.I)
    sect = {}
    for j in range(1, len(parts) - 1, 2):
        sect.setdefault(parts[j], parts[j + 1].strip())
    for k in ("1", "2"):
        d = os.path.join(DST, "%s-%s" % (p, k))
        os.makedirs(d, exist_ok=True)
        shutil.copy(os.path.join(SRC, p, "_seed", "change%s.diff" % k), os.path.join(d, "patch.diff"))
        shutil.copy(os.path.join(SRC, p, "_seed", "demo%s.py" % k), os.path.join(d, "demo.py"))
        text = sect.get(k, "")
        def field(name):
            m = re.search(r"(?ims)^[-*]\s*\**%s\**\s*:?\**\s*(.*?)(?=^\s*[-*]\s*\**[A-Z][\w /]*\**\s*:|\Z)" % name, text)
            return re.sub(r"\s+", " ", m.group(1)).strip() if m else ""
        files = sorted(set(re.findall(r"^\+\+\+ b/(\S+)", open(os.path.join(d, "patch.diff")).read(), flags=re.M)))
        lines = [ln for ln in conf.splitlines() if ln.startswith("seed" + k)]
        meta = {
            "id": "%s-%s" % (p, k), "property": p, "files": files,
            "summary": field("What") or text.split("\n")[0][:300],
            "clause_broken": field("Clause broken") or field("Clause"),
            "needs_to_manifest": field("Needs"),
            "origin": "written by an independent sub-agent that saw only the property text and its own scratch worktree of /repo",
            "confirmed_by_me": {
                "how": "in the scratch worktree /tmp/seed/%s (HEAD = /repo HEAD): demo on the clean tree; git apply patch.diff; the pinned suite "
                       "(/venv/bin/python -m pytest -ra -q -p no:cacheprovider --timeout=900 --continue-on-collection-errors); demo again; git checkout -- ." % p,
                "log": lines,
                "applies": any("applies" in ln for ln in lines),
                "suite_at_baseline": any("190 passed" in ln and "1 error" in ln for ln in lines),
                "demo_clean_exit": 0 if any("demo-clean exit 0" in ln for ln in lines) else None,
                "demo_seeded_exit": 1 if any("demo-seeded exit 1" in ln for ln in lines) else None,
            },
            "agent_notes": text,
        }
        json.dump(meta, open(os.path.join(d, "meta.json"), "w"), indent=1, sort_keys=True)
        print(meta["id"], "|", meta["summary"][:90], "|", meta["needs_to_manifest"][:60])
