#!/usr/bin/env python3
"""Write the prompts for a hunt round (one fresh agent per property, on its own scratch worktree of /repo HEAD) to
<outdir>/full_Cxx.txt and create the worktrees <outdir>/Cxx.  The agents get the property's text, the list of what was
already repaired and what was set aside -- nothing from /verif.   usage: tools/gen_hunt_prompts.py <outdir> [--no-worktrees]"""
import json
import os
import subprocess
import sys

HERE = os.path.dirname(os.path.dirname(os.path.abspath(__file__)))

SET_ASIDE = {
    "C04": ["complex numbers as signature numbers (get_key(1+0j) raising TypeError)", "intervals.unison ignoring its key argument", "non-string keys"],
    "C05": ["Chromatic.descending being respelled with flats (compared by pitch)", "scale == None raising AttributeError", "degree(8) on a one-octave scale raising IndexError",
            "minor-family classes lower-casing a tonic such as 'AB'"],
    "C06": ["aliases assembled by successive replace() calls ('G-a')", "'NC' as the left polychord operand", "RecursionError for strings with about a thousand basses or polychord operands",
            "the meaning of '7+' / 'M7+5' (the tables agree with each other)"],
    "C07": ["intervals.determine wrapping at the octave (C-B# named a diminished seventh)", "chords named for four-or-more-note inputs that are not chords the library knows",
            "two-note inputs answered with the long interval name even when shorthand=True", "seven-note inputs (determine_extended_chord7 stops one rotation early, ignores no_inversions)", "tuple input raising TypeError"],
    "C08": ["bare triads IIdim / IVdim among the substitutes of V", "lower-case numerals are upper-cased by parse then format", "dominant sevenths built for diminished chords in substitute()",
            "the aliases i, iv, v not existing", "unknown suffixes such as 'IX' or 'Imin7' raising KeyError", "tuple_to_string for more than six accidentals", "substitute_diminished_for_dominant (undocumented)"],
    "C09": ["subtract(a, a) raising ZeroDivisionError", "dotted tuplets", "values outside [0.125, 256)", "valid_beat_duration being slow on integers with 10^5 digits", "complex or Decimal arguments", "values below 0.25 that match nothing being reported with base 128", "septuplet(b, False) analysed as 7:4 of b/2"],
    "C10": ["octave text such as 'C- 4' or 'C-+4' accepted because int() tolerates it", "repr() includes quote characters", "which exception class rejects a malformed text (IndexError / ValueError / NoteFormatError)",
            "loose octave marks in Helmholtz text after the accidentals", "set_note with both a dynamics dict and keyword velocity/channel: which of the two wins", "re-invoking __init__ on a live note", "Helmholtz text with an accidental after the octave marks (c'b read as Cb-4): the reader is lenient about the order of signs and marks"],
    "C11": ["names that mix sharps and flats (C#b) are not restored by up-then-down or augment-then-diminish", "objects the caller stores twice are operated on twice",
            "names with four or more accidentals are not restored by up-then-down", "transposing below C-0 giving a negative octave", "interval shorthands whose size is outside 0-11 wrapping by an octave", "strings that are not interval shorthands at all ('8', '0', 'x') leaving name False before raising"],
    "C12": ["augmented seventh '#7' collapsing onto the root", "is_dissonant meaning 'some pair is dissonant'", "container[i] = note not re-sorting", "remove_notes([['C', 4]]) raising TypeError",
            "container == list of strings raising", "removal by text with an octave ('B#-3') being by name and octave, so it does not remove an enharmonic C-4 although 'B#-3' in container is True", "add_notes(['E','H']) raising with E already added; the from_*_shorthand constructors emptying the container before failing", "a None flag given to is_consonant / is_perfect_consonant being read as 'no flag given'", "remove_notes([... a bad element]) raising with earlier elements already removed"],
    "C13": ["absolute tolerance at extreme bar lengths (units >= 2**30, bars longer than 500 whole notes)", "the same NoteContainer object placed twice being edited twice", "set_meter with units >= 2**1024",
            "place_notes not validating negative, zero, infinite or NaN values", "a tuple stored raw", "place_notes_at on a rest raising TypeError", "remove_last_entry on an empty bar raising IndexError",
            "change_note_duration (not part of the property)"],
    "C14": ["is_full's 0.001 tolerance letting a new bar open at 1343/1344", "add_bar by the caller while the last bar is not full", "track / bar equality ignoring key and meter", "Track() == None raising",
            "negative, infinite or NaN values", "a guitar refusing chords of more than six notes", "from_chords with a tuning set", "Composition + x returning None", "duplicate indices in selected_tracks placing the note twice", "a zero-length (0, 4) meter with from_chords raising ZeroDivisionError", "values whose reciprocal has a denominator above 10**6 leaving a remainder of about 1e-12 that from_chords carries into a new bar"],
    "C15": ["from_shorthand(s, slash=list) appending to the caller's list (internal parameter)", "containers storing the caller's own objects by reference", "tunings.get_tuning returning the registry's own object",
            "a new bar sharing the previous bar's Key object (Key has no mutator)"],
    "C16": ["velocity 0 note-ons", "rests at the very end of a file not reflected in end-of-track", "tempo values that do not fit three bytes, float bpm, bpm 0 (refused with an error)",
            "non-ASCII track names raising UnicodeEncodeError", "two enharmonically equal notes in one container", "MidiTrack.reset() keeping a pending rest", "tempo-changing containers (.bpm on an entry): on empty containers, across repeats", "a MidiTrack driven by hand with set_tempo / set_instrument between two play_Bar calls (stale delta after the last note-off)"],
    "C17": ["written trailing rests are lost", "the instrument of a track without sounding notes", "bpm above 1000", "an empty Composition written at 90 bpm reading back at 120",
            "a file truncated inside a chunk's length field", "non-ASCII track names"],
    "C18": ["tracks with different numbers of bars or different meters played in parallel", "free-time (0,0) bars in play_Bars", "instrument announced as names.index(name) rather than instrument_nr",
            "non-integral or NaN control change values", "zero tracks; bpm 0 or negative", "observers that send commands to the sequencer from inside a handler (nested dispatch reaches later observers first)", "time points closer than 1e-5 whole notes merged by play_Bars"],
    "C19": ["control characters in titles", "MusicXML schema matters (type names, element order)", "values outside the vocabulary such as 0.8", r"\time 0/0 for free-time bars", "the encoding used by write_Composition"],
    "C20": ["two-digit frets at widths that give an entry a single column", "the beat-marker line being longer than the string lines", "get_Note with inf / nan / float frets",
            "get_tunings('cello') leaving out 'Cello banjo' (completeness of lookup)", "string / fret hints ignored by tablature.from_NoteContainer", "find_chord_fingering raising IndexError when there is no fingering",
            "all-open chord fingerings never returned", "one-string tunings", "find_fingering([]) returning [] rather than [[]]", "a space before a one-digit fret beside a two-digit one in from_Bar", "fingers_needed counting muted strings as fingers"],
}


def prop_text(d):
    a = d.get("anchors", {})
    lines = ["PROPERTY %s -- %s" % (d["id"], d["title"]), "", d["statement"], "", "Scope: " + d["quantifier"]["text"], "", "Why the existing tests cannot settle it: " + d.get("why_tests_cant", ""), "",
             "Code it is about: " + ", ".join(a.get("files", []))]
    for m in a.get("mechanism", []):
        lines.append("  - %s (%s)" % (m.get("name"), m.get("where")))
    for m in a.get("state", []):
        lines.append("  - state: %s: %s (%s)" % (m.get("name"), m.get("meaning"), m.get("where")))
    if a.get("observe_at"):
        lines.append("Observable at: " + "; ".join(a["observe_at"]))
    return "\n".join(lines)


def main():
    out = sys.argv[1]
    os.makedirs(out, exist_ok=True)
    kf = json.load(open(os.path.join(HERE, "known_findings.json")))
    byprop = {}
    for e in kf["fixed"]:
        byprop.setdefault(e["property"], []).append(e["line"].split(" ", 3)[3])
    props = [json.loads(l) for l in open(os.path.join(HERE, "properties.jsonl")) if l.strip()]
    head = subprocess.run(["git", "-C", "/repo", "rev-parse", "--short", "HEAD"], capture_output=True, text=True).stdout.strip()
    for d in props:
        p = d["id"]
        W = os.path.join(out, p)
        fixed = "\n".join("  - " + x for x in byprop.get(p, [])) or "  (none)"
        skip = "\n".join("  - " + x for x in SET_ASIDE.get(p, [])) or "  (none)"
        text = f"""You are testing the open-source Python library python-mingus (music theory: notes, intervals, chords, scales, containers, MIDI, LilyPond/MusicXML/tablature exporters) against a stated semantic property.

Your own scratch git worktree of the library is at {W} (a detached checkout of commit {head}; work ONLY inside it; never touch /repo or /verif and do not read anything under /verif or any other directory of /tmp). Python is /venv/bin/python (3.12); run things as `cd {W} && /venv/bin/python ...` so that the worktree's `mingus` package is the one imported (check with `python -c "import mingus; print(mingus.__file__)"`, and use PYTHONPATH={W} for scripts that live elsewhere). Do NOT modify any tracked file of the library. Write temporary files only inside {W}/_seed/.

Below is a semantic PROPERTY that the library is claimed to satisfy for ALL inputs / histories in its scope. Two earlier reviews already found and repaired a number of violations (listed below) and set some reported behaviours aside as outside the property's scope (also listed). Your job is a FURTHER, independent hunt on the repaired library: find violations that are NOT in either list.
  - Read the code the property is about clause by clause (the repairs may themselves have introduced mistakes: check them too), and look for inputs, input classes, operation sequences, aliasing created by the library itself, boundary values (empty, zero, huge, float vs int, unusual but valid spellings such as B#/Cb/E#/Fb and double accidentals), interactions between two features of the property, sibling entry points that should behave like the one the property names (operators beside methods, index assignment beside placement, text forms beside objects), requests that are rejected but leave something changed, and second calls after first calls for which a clause fails.
  - Write an independent model / oracle of the property (your own arithmetic, not the library's functions for the same thing) and compare the library against it over as much of the property's scope as you can enumerate (exhaustively up to a bound, plus random longer cases). Spend your effort on parts of the scope that earlier reviewers are likely to have covered thinly: combinations, longer histories, the less used entry points named in the property.
  - For every discrepancy decide whether it is a genuine violation of the property AS STATED (quote the clause) or is outside the property's scope / a flaw of your oracle.

Already found and repaired (do not report these again; they should no longer reproduce -- if one still does, say so):
{fixed}
Already judged outside the property's scope (do not report):
{skip}

Deliver, inside {W}/_seed/ (create it; write every file with your shell or editor tools -- if a tool refuses to write a .md file, write findings as findings.txt instead):
  - hunt.py : your oracle + exploration, runnable as `PYTHONPATH={W} /venv/bin/python hunt.py`; it prints one line per distinct kind of violation found (with a minimal concrete witness: the exact call(s) and observed vs expected) and a final line `TOTAL <n> violation kinds, <m> cases checked`; exit code 0 if none, 1 otherwise; keep its run time under ten minutes;
  - for each genuine violation kind a tiny standalone witness script witnessK.py (a few lines: the calls, observed, expected, the clause violated), runnable the same way, exiting 1 when the violation is present;
  - findings.txt : for each violation kind: the clause, the minimal witness, why it is in scope, where in the code it comes from (file:function and the responsible lines), and the smallest fix; also what you explored without finding anything.
Be rigorous about scope. It is entirely possible that there is no further violation; in that case say so and describe the coverage of your exploration. Leave the worktree's tracked files unmodified (`git status --short` must show only `?? _seed/`). Report back a concise summary: each new violation kind with its witness and suggested fix, or the coverage achieved if none.

{prop_text(d)}
"""
        open(os.path.join(out, "full_%s.txt" % p), "w").write(text)
        if "--no-worktrees" not in sys.argv:
            subprocess.run(["git", "-C", "/repo", "worktree", "add", "--detach", W], capture_output=True)
    print("prompts for %d properties in %s at /repo %s" % (len(props), out, head))


if __name__ == "__main__":
    main()
