#!/usr/bin/env python3
"""Regenerate /verif/MANIFEST.json from the per-property table below and validate it."""
import json
import os
import subprocess
import sys

HERE = os.path.dirname(os.path.dirname(os.path.abspath(__file__)))
PY = "/venv/bin/python"

# property -> (technique, level text, level note, design ref)
CLAIMED = {
    "C01": (
        "abstract interpretation of notes.py over note-name shapes (per-character fold summaries, symbolic accidental counts) + constant-table checks against an independent oracle",
        "Static: every function of core/notes.py is evaluated abstractly on 7 letters x a symbolic run of accidentals of any length/order and on malformed-shape classes; the closed forms (natural + sharps - flats mod 12, +-1 for augment/diminish, |net| homogeneous accidentals, table row selection) are compared with an oracle, and both int->name tables are checked row by row. Each held instance covers an unbounded family of spellings, which example tests and bounded enumeration cannot.",
        "Decides the structural clauses listed in DESIGN section C01; the induction from per-character summaries to whole strings is argued in DESIGN, not machine-checked. Not decided: behaviour on the empty string. Trusted: CPython ast, the abstract evaluator (validated by variants/c01.py), oracle constants in engine/notesdom.py.",
        "DESIGN.md section 2, C01"),
    "C02": (
        "abstract interpretation of the 17 interval constructors to (letter offset, semitone) summaries; Hoare-style loop-invariant check of the correction helper; interval+congruence evaluation of its normalisation; truth tables of measure/consonance over finite abstract domains",
        "Static: every constructor is reduced, for 7 letters x arbitrary accidentals, to the letter and semitone constant it hands to the correction helper and compared with the interval table of theory; the helper's loop invariant (compared value == measure(note1, note2)), its direction pairing (termination, <= 11 steps) and its normalisation/rebuild (pitch preserved mod 12, <= 6 unmixed accidentals) are verified on every abstract path; measure is shown congruent to the pitch-class difference with range 0..11 and the consonance predicates are evaluated on all 12 measure values x flag.",
        "Decides the structural clauses of DESIGN section C02. Relies on C01 (note_to_int summary) and C04 (key C = naturals) rules; the composition argument is in DESIGN. Trusted: CPython ast, the abstract evaluator (validated by variants/c02.py), the oracle table.",
        "DESIGN.md section 2, C02"),
    "C03": (
        "abstract interpretation of intervals.determine on 49 letter pairs x symbolic accidentals (name/shorthand compared with the offset interval on each path), of from_shorthand on 7 letters x 35 shorthands x up/down with the helper's post-condition as summary, alias/net-effect evaluation of invert",
        "Static: on every abstract path of determine the interval number equals the letter span, the quality word matches the range of the semitone offset on that path, and the shorthand's net accidental equals the offset as a linear form (no information lost); from_shorthand lands on the required letter and pitch offset for all 490 (letter, shorthand, direction) combinations with arbitrary input accidentals; invert returns a fresh reversed list and leaves its argument unchanged.",
        "Decides letter and pitch class, not the exact spelling produced by composing determine with from_shorthand for mixed or >6-accidental spellings (see NOT_DECIDED in the evidence). Relies on C01/C02 summaries. Trusted: CPython ast, abstract evaluator (variants/c03.py), oracle.",
        "DESIGN.md section 2, C03"),
    "C04": (
        "constant folding of the key tables against a circle-of-fifths oracle; partial evaluation (specialisation) of the keys.py functions to each of the 30 rows of the constant key table; symbolic evaluation of get_key on in-range / out-of-range signature symbols; abstract evaluation of the diatonic steps for 30 keys x 7 letters x symbolic accidentals",
        "Static: keys/major_keys/minor_keys/base_scale equal the oracle; for every table row the residual of get_notes, get_key_signature, get_key_signature_accidentals, relative_major/minor and Key.__init__ equals the oracle value (tonic first, consecutive letters, major / natural-minor pattern, signature count/sign/order); get_key selects row n + offset for -7..7 and raises RangeError on both unbounded sides; unknown keys are rejected; second..seventh return the key note k letters above for every spelling of the start note. Rejections include the empty string and go through Key(...) as well.",
        "The quantifier '30 keys' is the constant table in the source, so specialisation to each row is exhaustive. Memo transparency is decided under C15. Trusted: CPython ast, abstract evaluator (variants/c04.py), oracle in engine/notesdom.py (self-checked against the step patterns).",
        "DESIGN.md section 2, C04"),
    "C05": (
        "offset-domain abstract interpretation of ascending()/descending() of all 17 scale classes with a symbolic octave count; value-kind evaluation of degree(); policy-driven abstract evaluation of scales.determine exposing the note sets it tests",
        "Static: for every class (tonic = 7 letters x arbitrary accidentals for interval-built scales, every row of the constant key table for key-built ones) ascending() is period * n + [tonic] for a symbolic n with the period equal to the defining step pattern on consecutive letters (heptatonic), descending() is the exact reverse or the documented melodic-minor / minor-Neapolitan form; degree(k, 'a'|'d') selects index k-1 of the right list for symbolic k and rejects k<1 / unknown directions; determine tests exactly the ascending and descending sets of the 7 major/minor-family classes over the 15 key pairs and appends the matching scale's name.",
        "Not decided: tonics outside the key table for key-built scales; recognition on enharmonic respellings. Trusted: CPython ast, abstract evaluator (variants/c05.py), PATTERNS oracle, C01/C02/C04 summaries.",
        "DESIGN.md section 2, C05"),
    "C07": (
        "offset-domain abstract interpretation of chords.determine on every constructible shorthand x root letter x rotation x output form, with parsing of the abstract answers; AST rules for emitted-name closure, ordinal domain, triad decision-table soundness and trivial sizes",
        "Static: for every constructible chord (root = letter x arbitrary accidentals, chord tones = root + constant) in every rotation the shorthand answer contains a name on the root whose formula equals the chord's, the long answer at the same position is root + meaning + the right inversion ordinal, both forms have equal length, neither raises, and every answered name (incl. polychord halves) is a constructible shorthand; every name constant a recogniser can emit is a key of both tables; int_desc covers 1..6; each row of the triad table names a chord containing the three notes; 0/1/2 notes give the documented answers.",
        "Quick tier uses 3 (triads/sevenths) or 2 (5-6 note chords) root letters with arbitrary accidentals, thorough all 7. Not decided: soundness of answers for arbitrary non-constructible 4-7 note inputs. Trusted: CPython ast, abstract evaluator (variants/c07.py), C02/C03/C06 summaries and oracles.",
        "DESIGN.md section 2, C07"),
    "C08": (
        "specialisation of chords.triads/sevenths and all function/numeral accessors to the 30 key-table rows; fold and count-down summaries of the numeral parser/formatter on symbolic prefixes; specialisation of to_chords / progressions.determine / the substitution rules over their finite alphabets; effect check of substitute()'s argument",
        "Static: in every key the 7 triads and sevenths and all 14 function names and numeral aliases (either case, with 7) equal the stacks of thirds inside the oracle key notes; parse_string yields (upper-cased numeral, #sharps - #flats, suffix) for any accidental prefix, tuple_to_string prepends exactly |acc| characters of the right kind for -6..6 and the two are inverse on well-formed numerals; to_chords denotes the right chord for numerals x case x {'', '7'} x prefixes -3..3, rebuilds chord suffixes on the degree's root, maps lists element-wise and answers [] for unknown numerals; every diatonic triad/seventh of a major key gets its function/numeral; each substitution rule keeps its promise and returns well-formed numerals; substitute() leaves the caller's list unchanged. The diminished sevenths substitute() offers for one chord form one minor-third cycle.",
        "Quick tier uses 7 of the 30 keys for to_chords and 5 of the 15 major keys for determine (thorough: all). Not decided: substitution recursion beyond depth 2; prefixes beyond +-6. Trusted: CPython ast, abstract evaluator (variants/c08.py), C04/C06/C07 oracles and models.",
        "DESIGN.md section 2, C08"),
    "C09": (
        "constant folding of the value tables; evaluation of the value arithmetic over exact rational functions; specialisation of value.determine to all constructible values and interval-domain evaluation on +-1% neighbourhoods; recurrent-set (non-termination) check of the meter loop; evaluation of the meter predicates on the residue/threshold partition",
        "Static: tables equal 2^k and the exact tuplet multiples; add/subtract are reciprocal duration addition/subtraction and mutually inverse as rational functions, dots/tuplet/triplet/quintuplet/septuplet equal their closed forms; every value built from a base with 0-4 dots or a 3:2/5:4/7:4 ratio is analysed as exactly that class, and every path of determine over the interval [0.99c, 1.01c] around each undotted / single-dotted recognised value c returns c's class; no interval of beat units is a recurrent set of the halving loop, integer units are valid exactly for 1,2,4,...; the four meter predicates match their definitions on counts -3..18 x valid/invalid unit. Integers beyond 2^53 and 2^1024, infinity and NaN are instances of the termination / validity rule (non-termination is proved by a repeating concrete loop state).",
        "Exact-value checks use the module's own float constructors (float equality as written); not decided: round-trip float equality of add/subtract, tolerance for >= 2 dots. Trusted: CPython ast, abstract evaluator + numeric domains (variants/c09.py), exact rational oracle.",
        "DESIGN.md section 2, C09"),
    "C10": (
        "abstract interpretation of the Note class on abstract objects: symbolic name/octave for __int__/from_int, trichotomy tables for the six comparisons, symbolic in-range / out-of-range evaluation of the setters and text parser, count-down summaries of the Helmholtz writer and fold evaluation of the reader on the writer's shapes, who-may-write enumeration, specialisation of the Hz pair over 0..127",
        "Static: int(Note) == 12*octave + natural + sharps - flats for every letter, accidental string and octave; int(from_int(i)) == i as linear forms; each rich comparison agrees with the ordering of the two integers on every path and distinguishes all three orderings; set_note parses 'Name' and 'Name-octave', rejects malformed names, the copy constructor forwards name/octave/velocity/channel; velocity outside 0..127 and channel outside 0..15 are rejected on both unbounded sides and no other code writes those attributes; Helmholtz output has the right case and exactly 2-octave commas / octave-3 primes for a symbolic octave, and reading it back restores letter, accidentals and octave for any number of marks; A-4 sits at the standard pitch, frequency doubles per octave and from_hertz inverts to_hertz over 0..127 (3 pitches, detuned -40/0/+40 cents). Velocity and channel given to the constructor are checked and stored for Note(name), Note(int) and Note(note), by keyword and by dynamics dict.",
        "Hz clause is a specialisation over the finite MIDI range with host floats, not a proof for all detunings. Independence of copies is decided under C15. Trusted: CPython ast, abstract evaluator (variants/c10.py), C01 summaries.",
        "DESIGN.md section 2, C10"),
    "C11": (
        "lifting (pass-through) analysis of transpose/augment/diminish at NoteContainer, Bar and Track level by abstract evaluation on containers of recording stubs; abstract evaluation of Note.transpose as pitch arithmetic (rename summarised by C03's post-condition, real comparison operators on symbolic pitch numbers, both wrap cases); interval evaluation of the octave clamp",
        "Static: at each container level each of the three operations calls the same-named operation exactly once on every element, in order, with its own parameters forwarded unchanged, skips rests (None) and leaves beats, values and rests untouched; Note.transpose renames through intervals.from_shorthand(old name, interval, up) and, with P(new) = P(old) +- s - 12w for a symbolic interval size s in 0..11 and either wrap w, moves the octave by exactly w on every path, i.e. the pitch number 12*octave + P(name) moves by exactly s; change_octave never yields a negative octave and equals octave + diff otherwise; Note.augment/diminish change the name by one semitone and keep the letter.",
        "Semitone exactness of the renamed note (and that it stays within one wrap) is C03's and is used as a summary. Trusted: CPython ast, abstract evaluator (variants/c11.py), C01/C03 summaries.",
        "DESIGN.md section 2, C11"),
    "C12": (
        "writer-discipline (typestate) evaluation of NoteContainer.add_note on abstract containers: membership test fails on every element -> append -> sort before return; who-may-write enumeration of self.notes; decision tables of octave inference, polymorphic add/remove dispatch and the removal predicate; call-sequence checks of the shorthand constructors; pair-enumeration check of the consonance test",
        "Static: on every path of add_note a note is stored only after comparing unequal (pitch equality) to every stored note and the list is sorted again before returning, no other method writes self.notes outside the enumerated writers => sorted and duplicate-free after every add/remove by induction; bare names get octave 4 when empty, else the top note's octave (+1 exactly when the candidate would lie below the top note); add_notes/remove_notes/+/- dispatch each input form to the right single-note calls; removal by name keeps exactly the notes whose name differs or whose octave differs when one is given, removal by Note is by pitch; the shorthand constructors empty the container first and add the core result; _consonance_test visits every unordered pair once and stops at the first failure, the four predicates bind the right core predicate and flag; len/in/[]/== follow the content. Bare names are voiced into [top, top + 12) for symbolic P(top), P(new) in -2..13 through the real comparison operators; removing a container from itself empties it.",
        "The invariant over arbitrary histories is an induction over the checked writers, not an exploration. Trusted: CPython ast, abstract evaluator (variants/c12.py), C10 (Note ordering/equality by int()).",
        "DESIGN.md section 2, C12"),
    "C13": (
        "abstract interpretation of Bar on symbolic rational beat/length/value: path-wise effect check of place_notes (accept/refuse), algebraic inspection of the accepting comparison (operands, unbounded escape, tolerance window), inverse check of remove_last_entry, formula checks of the derived quantities, slot-writer checks",
        "Static: an accepted placement appends exactly [beat before, value, normalised content] and advances the beat by exactly 1/value (so start beats are prefix sums), a refused one changes nothing and returns False; the gate is 'beat + 1/value <= length' up to a tolerance between 1e-12 and 1e-5 (above float drift, below the smallest gap between distinct totals, so it decides like exact rational arithmetic) or 'length == 0'; remove_last_entry subtracts 1/value of the last entry and drops exactly it; set_meter stores (count, unit) and count/unit for valid units, (0,0) -> 0.0, else MeterFormatError; space_left/value_left/'+'/is_full/__setitem__/place_notes_at/empty match their definitions. Placing and removing again restores the exact float beats; only the (0, 0) meter is unbounded.",
        "Exactness of acceptance is decided through the tolerance window (assumes < ~10^5 entries per bar), not by exploring histories. Trusted: CPython ast, abstract evaluator + rational functions (variants/c13.py), C09.",
        "DESIGN.md section 2, C13"),
    "C14": (
        "None-flow and effect analysis of Track.add_notes by abstract evaluation with the instrument classes inlined and Bar methods recorded; decision tables of the range gate; new-bar rule and pass-through of key/meter; generator evaluation of get_notes; policy-driven evaluation of from_chords; selection discipline of Composition",
        "Static: a rest (None) reaches place_notes of the last bar with no instrument and with every instrument class, a non-rest is placed only after can_play_notes answered true and raises InstrumentRangeError otherwise; note_in_range is lo <= note <= hi, can_play_notes unwraps containers/lists and requires all notes; a new bar is appended only for an empty track or a full last bar, built from the last bar's key and meter, and the result of place_notes on the last bar is returned; get_notes yields every (beat, value, content) of every bar in order, test_integrity checks all but the last bar; from_chords doubles the value per nesting level, places None as a rest and splits a refused chord into value_left and the remainder; add_track selects exactly the new index, add_note reaches exactly the selected tracks, '+' dispatches on the operand kind. Concrete histories with the real Track / Bar / NoteContainer / Instrument classes against an exact Fraction model: refused items change nothing, range answers for every way of writing a note x every instrument class, chord lists with rests / nesting / items longer than a bar, no container stored twice, equality of tracks with rests and of compositions.",
        "No-loss/no-reorder over arbitrary add sequences follows from the per-call rules by induction and is not explored. Trusted: CPython ast, abstract evaluator (variants/c14.py), C13.",
        "DESIGN.md section 2, C14"),
    "C15": (
        "effect / alias / escape analysis: must-rebind analysis of class-level mutable defaults vs package-wide in-place mutation sites; escape analysis of memo tables by double abstract evaluation with object-identity comparison; parameter-mutation dataflow with alias tracking; who-may-write ownership table of module state and mutable default arguments; identity check of container copies; order-domain evaluation (case analysis over comparison outcomes on a strictly increasing symbolic table) of the fft lookup accelerator's invariant; positive fixtures for zero-count rules",
        "Static: over core, containers, the MIDI writers/sequencer and extra.fft (492 functions): every class-level list/dict is rebound per instance on every __init__ path or never mutated in place; for a battery of 30+ public list-returning functions (all memoised ones, every function/numeral accessor, to_chords, from_shorthand, scales) two calls share no mutable object with each other or with module-level containers; no function mutates a parameter or an alias of it in place (two frozen, reasoned exceptions); module-level mutable state is written only by its frozen owner, no mutable default arguments; NoteContainer(other)/add_notes(other) do not share Note objects and Note.dynamics is fresh; fft._find_log_index: from any remembered (row, frequency) with the frequency in that row, every shortcut answer is the row f lies in, the search loop is entered from a start below f after the range check, in-loop answers are the row f lies in, and every state written keeps the invariant. Results do not alias arguments; a failing request asked three times fails identically; per-object slots with class-level mutable defaults are rebound by __init__.",
        "Not decided: termination of fft._find_log_index's search loop and its fallback statements; value-independence of arbitrary call histories beyond purity + memo transparency. Trusted: CPython ast, effect analysis + evaluator (variants/c15.py, fixtures/fixpkg), the frozen tables in rules/c15.py.",
        "DESIGN.md section 2, C15"),
    "C16": (
        "abstract interpretation of the MIDI track walkers over a finite partition of track shapes with symbolic values/pitches/velocities in a byte-stream domain (pending-delta typestate + symbolic event decode against an event model); evaluation of framing constants, header/body agreement, controller argument order, key-signature bytes for all 30 keys, writer repeat loops; boundary specialisation of the VLQ encoder",
        "Static: for every track shape in the partition (1-2 bars; entries: rest, empty, 1/2/3 notes, tempo-changing; with/without a MIDI instrument; rests leading/inner/trailing/across bar lines) every pending non-zero delay is emitted exactly once and the decoded stream equals the event model at symbolic absolute ticks (int(round(288/value)) per entry): note-on/off pairs with pitch+12, channel, velocity; tempo 60000000//bpm; bank select then program change on the first note's channel; time and key signature per bar; chunk and file headers have the right tags, lengths, format 1, 72 ticks and a track count equal to the emitted chunks; bank select is controller 0 on the given channel; each of the 30 keys (string or Key object) is written with its signed signature and mode; write_* repeat the whole content repeat+1 times into one MidiTrack per track; the VLQ encoder equals the standard on boundary neighbourhoods. The same MidiTrack playing a track two and three times (repeat counts) keeps the rests that end the track.",
        "Shapes beyond 2 bars x 4 entries are covered by the symbolic per-entry argument, not enumerated. Float log in the VLQ length is checked on neighbourhoods only. Trusted: CPython ast, abstract evaluator + engine/mididom.py (variants/c16.py), the event model in rules/c16.py.",
        "DESIGN.md section 2, C16"),
    "C17": (
        "writer/reader agreement analysis: the writer's encoders are evaluated abstractly to bytes for representative parameters and fed to the reader's decoders (event parser, VLQ reader, header/chunk parsers, per-event arms of MIDI_to_Composition with the file parser summarised); specialisation of the reader's event loop to ten rhythm shapes fed with the writer's event stream (C16's stream rule discharged here too); rejection paths evaluated on malformed headers",
        "Static: the reader decodes the writer's file header (format 1, track count, 72 ticks) and chunk length; note-on/off (incl. velocity 0 = off), program change and controller events come back with the fields the writer was given and the right number of bytes consumed; every one of the 30 keys, the tested meters, every tested bpm in 4..1000 (all of them in the thorough tier), track name, program number, pitch number, channel and velocity survive writer -> reader; the VLQ reader inverts the VLQ writer on boundary neighbourhoods; a bad header tag, track tag or format number raises. A file without tracks or tempo event is read.",
        "The reader's event loop (delta times -> entries/rests/bars) is decided on ten rhythm shapes with concrete tick lengths (leading, inner and bar-crossing rests, chords, three meters, dotted/triplet lengths): each must flatten to the (ticks, pitches) sequence it was written from; rhythms outside those shapes are not decided. Representative parameter values, not all 2^21 event encodings. Trusted: CPython ast, abstract evaluator + engine/mididom.py (variants/c17.py), C16.",
        "DESIGN.md section 2, C17"),
    "C18": (
        "abstract interpretation of the sequencer with recorded hooks and a real observer (dispatch inlined) on bar/track shapes with symbolic pitches, channels, velocities, values and tempo, compared with an event model; symbolic evaluation of the control-change guards; registry / message-table / instrument-announcement evaluation; mutation-while-iterating lint",
        "Static: for every bar shape (rest, 1-2 notes, tempo-changing container; 1-4 entries) play_Bar emits per sounding note one play_event(pitch+12, the note's channel and velocity), then sleep(240/(bpm*value)) with the tempo of that entry, then one stop_event with the same pitch and channel; rests only sleep; the final tempo is returned and threaded through play_Track; play_Bars on seven shapes of parallel full bars with equal rhythms (1-3 bars, tempo changes in any bar) emits per step every bar's notes, applies that step's tempo changes (last bar wins), sleeps once and stops every bar's notes; the observer's low-level stream equals the hook stream event by event; attach de-duplicates, detach removes, every listener is notified; control changes outside 0..128 (either argument, either side) return False and emit nothing, inside they emit once; every message constant is distinct and reaches the handler named for it with the keys the sequencer sends; play_Tracks announces one instrument per track on its channel before playing bars together, play_Composition defaults to channels 1..n; no loop mutates the list it iterates.",
        "play_Bars with different rhythms in parallel bars is decided on four shapes against a time-line model (every entry started once and stopped once at its own boundaries, sleeps along the union of the time lines). Not decided: rhythms outside the eleven shapes, bars that are not full. Trusted: CPython ast, abstract evaluator (variants/c18.py), event model in rules/c18.py.",
        "DESIGN.md section 2, C18"),
    "C19": (
        "abstract interpretation of the exporters: fold / count-down summaries of LilyPond pitch rendering; evaluation of the LilyPond container/bar/track/composition renderers on shapes with an independent subset reader decoding the produced text; evaluation of the MusicXML builders over an abstract DOM with move-on-append semantics and decoding of the resulting tree",
        "Static: LilyPond note names are lower-cased letter + is/es per accidental in order + octave-3 primes or 3-octave commas for a symbolic octave; rests, single notes and chords with base values incl. longa/breve, dots and tuplet groups decode to the music they were built from; key (all 30 keys) and time are shown on request, from_Track shows them exactly on change, the header carries title/author/subtitle. MusicXML: no element is appended twice; per note step/alter/octave, chord marks on every chord note but the first, dot count, tuplet ratio and duration/divisions == exact length in quarter notes; meter, fifths, mode; matching unique part ids, measure numbers 1..n; titles, names and instrument names enter as text nodes unchanged; empty bars export. LilyPond header texts with double quotes / backslashes read back unchanged; standalone containers carry their tuplet ratio; the same Track added twice gives two parts with different ids.",
        "Not decided: serialisation/escaping (delegated to xml.dom.minidom), longa/breve in MusicXML, shapes beyond those enumerated (covered by the per-entry argument). Trusted: CPython ast, abstract evaluator + engine/domdom.py (variants/c19.py), C09.",
        "DESIGN.md section 2, C19"),
    "C20": (
        "abstract interpretation of the tuning arithmetic on abstract tunings (plain strings and courses, symbolic pitches, symbolic in/out-of-range strings and frets); comparison of find_fingering with a brute-force specification under summarised fret tables; evaluation of the registry search over a model registry; value-kind flow rules (a course list reaching a Note operation, a float reaching range / repetition / from_Bar); column-wise decoding of a rendered model bar",
        "Static: find_frets reports the semitone distance to the open string (first note of a course) exactly when it lies in 0..maxfret, else None, one entry per string; get_Note is open string + fret and raises RangeError on all four unbounded out-of-range sides; find_fingering returns exactly the injective string assignments whose non-open frets span less than the maximum distance, ordered by total frets; get_tuning(s) return only tunings satisfying every given constraint with prefix / exact-name semantics; every consumer of tuning.tuning accepts courses; _get_width and the page loops produce integers and every bar is rendered once; a rendered bar has one equally long line per string and decodes column by column to the entries' fingerings. find_chord_fingering: every returned row on oracle tables is sound (one entry per string, only chord notes, all names, span, fingers). from_Composition renders every bar with its own track's tuning; empty bar, empty composition, string names of different lengths and foreign string / fret hints render.",
        "Not decided: find_chord_fingering, whole-composition tablature text, the 76 concrete registered tunings (rules are over abstract tunings). Trusted: CPython ast, abstract evaluator (variants/c20.py), brute-force specification and decoder in rules/c20.py.",
        "DESIGN.md section 2, C20"),
    "C06": (
        "offset-domain abstract interpretation of every chord builder (interval constructors summarised by their C02 post-condition) against a meaning-keyed chord-theory oracle; table agreement; abstract evaluation of the shorthand parser on root shapes x keys, aliases, slash, polychord, NC, list and malformed classes",
        "Static: each of the shorthand builders (incl. the lambda) yields, for 7 root letters x arbitrary accidentals, exactly the (letter, semitone) list its meaning prescribes; chord_shorthand and chord_shorthand_meaning have equal key sets; from_shorthand maps every key, every min/mi/-/maj/ma alias spelling, slash basses, polychords, NC and list input to the right builder result and rejects unknown suffixes / bad roots / bad basses with the documented errors. Degenerate strings ('' , 'C|', 'C/', a second bass, garbage after the bass) are rejected with FormatError / NoteFormatError; 'C|NC', a slash chord as left polychord partner and 'NC' asked again after an edit of an earlier answer are decided.",
        "Letter and pitch class are decided, not the spelling of each note (that is C02's normalisation). Nested slash/polychord combinations beyond one level are not decided. Trusted: CPython ast, abstract evaluator (variants/c06.py), ORACLE table in rules/c06.py, C01/C02/C04 summaries.",
        "DESIGN.md section 2, C06"),
}

NOT_YET = "rules for this property are not built yet in this round (planned: see DESIGN.md section 2); not claimed until they are"

ALL = ["C%02d" % i for i in range(1, 21)]


def main():
    checks = []
    for pid in ALL:
        if pid not in CLAIMED:
            continue
        tech, text, note, ref = CLAIMED[pid]
        checks.append({
            "property_id": pid,
            "quick_cmd": "%s /verif/check %s --tier quick" % (PY, pid),
            "thorough_cmd": "%s /verif/check %s --tier thorough" % (PY, pid),
            "evidence_file": "/verif/evidence/%s.json" % pid,
            "replay_cmd_template": "%s /verif/check %s --replay {path}" % (PY, pid),
            "engine": "mingus_static",
            "level_claimed": {"category": "other", "text": text, "design_ref": ref},
            "level_note": note,
            "technique": "static analysis: " + tech,
        })
    extra_na = {}
    na_path = os.path.join(HERE, "tools", "not_applicable.json")
    if os.path.exists(na_path):
        extra_na = json.load(open(na_path))
    na = [{"property_id": p, "reason": extra_na.get(p, NOT_YET)} for p in ALL if p not in CLAIMED]
    fixes = []
    try:
        out = subprocess.run(["git", "-C", "/repo", "log", "--format=%H %s"], capture_output=True, text=True).stdout
        fixes = [ln.split()[0] for ln in out.splitlines() if ln.split(" ", 1)[1].startswith("fix:")]
    except Exception:
        pass
    man = {
        "version": 1,
        "setup_cmd": "%s -c \"import ast, sys; assert sys.version_info >= (3, 9)\"" % PY,
        "hooks": {
            "guard": "BSPAANS_PYTHON_MINGUS_VERIF",
            "enable": "none needed: the checks only parse /repo's sources (stdlib ast); no hook or instrumentation exists in /repo",
            "baseline_off_cmd": "cd /repo && /venv/bin/python -m pytest -q -p no:cacheprovider --timeout=900 --continue-on-collection-errors",
            "source_commits": list(reversed(fixes)),
            "add_only": True,
        },
        "engines": [{
            "name": "mingus_static",
            "path": "/verif/mingus_static",
            "serves_properties": sorted(CLAIMED),
            "kind_free_text": "repository-specific static analyser: stdlib-ast loader/resolver/constant folder, abstract evaluator over note-shape / linear-form / character-class domains with fold and count-down loop summaries, effect/alias, value-kind and typestate analyses; rule modules per property; variant corpus self-test",
        }],
        "checks": checks,
        "not_applicable": na,
        "notes": "All checks are static (parse-only) analyses of /repo's current working tree; exit 0/1/2 = held / VIOLATION / ANALYSIS-ERROR. Known findings: /verif/known_findings.json. Design: /verif/DESIGN.md.",
    }
    path = os.path.join(HERE, "MANIFEST.json")
    with open(path, "w") as fh:
        json.dump(man, fh, indent=1)
    try:
        import jsonschema  # only in the tooling venv
        jsonschema.validate(man, json.load(open("/root/.vp/MANIFEST.schema.json")))
        print("MANIFEST.json valid; %d claimed, %d not applicable" % (len(checks), len(na)))
    except ImportError:
        print("MANIFEST.json written (jsonschema not importable here; run with python3-vt to validate)")


if __name__ == "__main__":
    main()
