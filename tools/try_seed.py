#!/usr/bin/env python3
"""Apply a patch to /repo, run the quick checks (all or the named ones), print the verdicts, undo the patch.

usage: tools/try_seed.py <patch.diff> [Cxx ...]      (no property named = all 20)
Never leaves /repo modified (git checkout -- . in a finally block); refuses to start on a dirty tree.
"""
import os
import subprocess
import sys
from concurrent.futures import ThreadPoolExecutor

HERE = os.path.dirname(os.path.dirname(os.path.abspath(__file__)))


def sh(*a, **k):
    return subprocess.run(a, capture_output=True, text=True, **k)


def main():
    patch = os.path.abspath(sys.argv[1])
    props = [p.upper() for p in sys.argv[2:]] or ["C%02d" % i for i in range(1, 21)]
    if sh("git", "-C", "/repo", "status", "--porcelain", "--untracked-files=no").stdout.strip():
        print("refusing: /repo has uncommitted changes")
        return 2
    r = sh("git", "-C", "/repo", "apply", patch)
    if r.returncode:
        print("patch does not apply:", r.stderr.strip())
        return 2
    env = dict(os.environ, MINGUS_STATIC_NO_EVIDENCE="1")
    try:
        def one(p):
            c = subprocess.run(["/venv/bin/python", os.path.join(HERE, "check"), p, "--tier", "quick"], capture_output=True, text=True, env=env)
            return p, c.returncode, c.stdout
        with ThreadPoolExecutor(max_workers=10) as ex:
            res = list(ex.map(one, props))
    finally:
        sh("git", "-C", "/repo", "checkout", "--", ".")
    fired = []
    for p, rc, out in res:
        if rc != 0:
            fired.append(p)
            lines = [ln for ln in out.splitlines() if ln.startswith(("VIOLATION", "  rule=", "ANALYSIS-ERROR"))]
            rules = sorted({ln.split()[0] + " " + ln.split()[1] for ln in lines if ln.startswith("  rule=")})
            print("%s exit %d  %s" % (p, rc, "; ".join(r_[7:] for r_ in rules)[:300] or [ln for ln in lines if ln.startswith("ANALYSIS")][:1]))
            first = [ln for ln in out.splitlines() if ln.startswith("  ") and not ln.startswith(("  rule=", "  construct", "  R-"))]
            if first:
                print("     ", first[0].strip()[:260])
    print("FIRED:", " ".join(fired) or "none")
    return 0


if __name__ == "__main__":
    sys.exit(main())
