#!/bin/bash
# confirm, import and evaluate the round-2 seeds of the given properties
for P in "$@"; do /tmp/seed2/confirm.sh $P; done
cd /verif && python3 tools/import_seeds2.py "$@" | cut -c1-160
ids=""; for P in "$@"; do for s in 3 4 r1 r2; do [ -d /verif/seeded/$P-$s ] && ids="$ids $P-$s"; done; done
python3 tools/seed_matrix.py $ids
