#!/usr/bin/env python3
"""Regenerate the round-4 defect table of DESIGN.md (between the 'round4 fixes' markers) from known_findings.json:
the fixed entries whose /repo commit comes after the base commit (the last repair of round 3)."""
import json
import os
import re
import subprocess

HERE = os.path.dirname(os.path.dirname(os.path.abspath(__file__)))
BASE = "00d3da0"


def main():
    kf = json.load(open(os.path.join(HERE, "known_findings.json")))
    log = subprocess.run(["git", "-C", "/repo", "log", "--format=%h", "%s..HEAD" % BASE], capture_output=True, text=True).stdout.split()
    later = [c[:7] for c in reversed(log)]
    rows = []
    for c in later:
        for e in kf["fixed"]:
            if e["commit"][:7] == c:
                wit = e["line"].split(e["commit"], 1)[1].strip()
                rows.append("| %s | %s (%s) | %s |" % (e["rule"], wit.replace("|", "\\|"), e["property"], e["commit"]))
    table = "| rule | witness (property) | commit |\n|------|--------------------|--------|\n" + "\n".join(rows)
    p = os.path.join(HERE, "DESIGN.md")
    s = open(p).read()
    s2 = re.sub(r"(<!-- BEGIN round4 fixes -->\n).*?(\n<!-- END round4 fixes -->)", lambda m: m.group(1) + table + m.group(2), s, flags=re.S)
    open(p, "w").write(s2)
    print("%d rows" % len(rows))


if __name__ == "__main__":
    main()
