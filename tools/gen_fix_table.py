#!/usr/bin/env python3
"""Regenerate the round-4 defect table of DESIGN.md (between the 'round4 fixes' markers) from known_findings.json:
the fixed entries whose /repo commit comes after the base commit (the last repair of round 3)."""
import json
import os
import re
import subprocess

HERE = os.path.dirname(os.path.dirname(os.path.abspath(__file__)))
# marker name -> (commit after which the round starts, last commit of the round or None for HEAD)
ROUNDS = {"round4 fixes": ("00d3da0", "3fda9a8"), "round5 fixes": ("3fda9a8", "a1b4b12"), "round8 fixes": ("a1b4b12", None)}


def main():
    kf = json.load(open(os.path.join(HERE, "known_findings.json")))
    p = os.path.join(HERE, "DESIGN.md")
    s = open(p).read()
    for marker, (base, end) in ROUNDS.items():
        log = subprocess.run(["git", "-C", "/repo", "log", "--format=%h", "%s..%s" % (base, end or "HEAD")], capture_output=True, text=True).stdout.split()
        later = [c[:7] for c in reversed(log)]
        rows = []
        for c in later:
            for e in kf["fixed"]:
                if e["commit"][:7] == c:
                    wit = e["line"].split(e["commit"], 1)[1].strip()
                    rows.append("| %s | %s (%s) | %s |" % (e["rule"], wit.replace("|", "\\|"), e["property"], e["commit"]))
        table = "| rule | witness (property) | commit |\n|------|--------------------|--------|\n" + "\n".join(rows)
        assert "<!-- BEGIN %s -->" % marker in s, marker
        s = re.sub(r"(<!-- BEGIN %s -->\n).*?(<!-- END %s -->)" % (marker, marker), lambda m: m.group(1) + table + "\n" + m.group(2), s, flags=re.S)
        print("%s: %d rows" % (marker, len(rows)))
    open(p, "w").write(s)


if __name__ == "__main__":
    main()
