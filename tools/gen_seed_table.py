#!/usr/bin/env python3
"""Regenerate the table of DESIGN.md section 8 from seeded/*/meta.json (between the BEGIN/END markers)."""
import json, os, re
HERE = os.path.dirname(os.path.dirname(os.path.abspath(__file__)))
rows = []
for d in sorted(os.listdir(os.path.join(HERE, "seeded"))):
    mp = os.path.join(HERE, "seeded", d, "meta.json")
    if not os.path.isfile(mp):
        continue
    m = json.load(open(mp))
    kind = m.get("kind", "breaking")
    caught = m.get("caught_by", {})
    gave = m.get("gave_up", {})
    if kind == "breaking":
        own = m["property"] in caught
        verdict = "; ".join("%s: %s" % (p, ", ".join(r)) for p, r in sorted(caught.items())) or ("gave up (exit 2): " + ", ".join(sorted(gave)) if gave else "**missed**")
    else:
        verdict = "silent (all 20 checks exit 0)" if not caught and not gave else "**FALSE ALARM** " + "; ".join("%s: %s" % (p, ", ".join(r)) for p, r in sorted(caught.items())) + (" gave up: " + ", ".join(sorted(gave)) if gave else "")
    summ = re.sub(r"\s+", " ", m.get("summary", "")).replace("|", "\\|")
    rows.append("| %s | %s | %s | %s | %s |" % (d, kind, ", ".join(os.path.basename(f) for f in m.get("files", [])), summ[:150] + ("…" if len(summ) > 150 else ""), verdict))
table = "\n".join(["| seed | kind | file | change | verdict of the quick checks (rule ids) |", "|---|---|---|---|---|"] + rows)
p = os.path.join(HERE, "DESIGN.md")
s = open(p, encoding="utf-8").read()
b, e = "<!-- BEGIN seed table -->", "<!-- END seed table -->"
if b in s:
    s = s[:s.index(b) + len(b)] + "\n" + table + "\n" + s[s.index(e):]
    open(p, "w", encoding="utf-8").write(s)
    print("table updated: %d rows" % len(rows))
else:
    print(table)
