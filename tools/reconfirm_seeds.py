#!/usr/bin/env python3
"""Re-confirm seeded changes against /repo's current HEAD (after new fix: commits).
For every seeded/<id> whose patched files changed between the commit it was last confirmed at and HEAD:
a temporary worktree (removed afterwards) gets the patch; the pinned suite and the demo / equivalence script run; the
outcome is written to meta.json["reconfirmed"].  usage: tools/reconfirm_seeds.py [--all]"""
import json, os, shutil, subprocess, sys, tempfile
HERE = os.path.dirname(os.path.dirname(os.path.abspath(__file__)))
FIRST = "73c07c4"  # HEAD of /repo when the seeds were written


def sh(*a, **k):
    return subprocess.run(a, capture_output=True, text=True, **k)


def main():
    head = sh("git", "-C", "/repo", "rev-parse", "--short", "HEAD").stdout.strip()
    todo = []
    for d in sorted(os.listdir(os.path.join(HERE, "seeded"))):
        mp = os.path.join(HERE, "seeded", d, "meta.json")
        if not os.path.isfile(mp):
            continue
        m = json.load(open(mp))
        since = m.get("reconfirmed", {}).get("repo_head", FIRST)
        if since == head and "--all" not in sys.argv:
            continue
        changed = set(sh("git", "-C", "/repo", "diff", "--name-only", since, head).stdout.split())
        if "--all" in sys.argv or set(m["files"]) & changed:
            todo.append((d, mp, m))
    if not todo:
        print("nothing to re-confirm")
        return 0
    base = tempfile.mkdtemp(prefix="reconfirm_")
    wt, pristine = os.path.join(base, "wt"), os.path.join(base, "pristine")
    try:
        sh("git", "-C", "/repo", "worktree", "add", "--detach", wt)
        os.makedirs(pristine)
        subprocess.run("git -C /repo archive HEAD | tar -x -C %s" % pristine, shell=True, check=True)
        for d, mp, m in todo:
            sd = os.path.join(HERE, "seeded", d)
            sh("git", "-C", wt, "checkout", "--", ".")
            if sh("git", "-C", wt, "apply", "--check", os.path.join(sd, "patch.diff")).returncode:
                m["reconfirmed"] = {"repo_head": head, "applies": False,
                                    "note": "the lines this patch edits were changed by a later fix: commit in /repo; kept for the record, skipped by the self-test"}
            else:
                sh("git", "-C", wt, "apply", os.path.join(sd, "patch.diff"))
                suite = sh("/venv/bin/python", "-m", "pytest", "-ra", "-q", "-p", "no:cacheprovider", "--timeout=900", "--continue-on-collection-errors",
                           cwd=wt).stdout.strip().splitlines()[-1][:60]
                if os.path.isfile(os.path.join(sd, "demo.py")):
                    ex = sh("/venv/bin/python", os.path.join(sd, "demo.py"), env=dict(os.environ, PYTHONPATH=wt), timeout=1800).returncode
                    if ex == 0 and os.path.isfile(os.path.join(sd, "demo2.py")):
                        # a later fix took away the route the first demonstration used: the second one (see meta 'second_demo')
                        ex = sh("/venv/bin/python", os.path.join(sd, "demo2.py"), env=dict(os.environ, PYTHONPATH=wt), timeout=1800).returncode
                else:
                    ex = sh("/venv/bin/python", os.path.join(sd, "equiv.py"), pristine, wt, cwd=base, timeout=3600).returncode
                m["reconfirmed"] = {"repo_head": head, "applies": True, "suite": suite, "suite_at_baseline": suite.startswith("190 passed"),
                                    "demo_or_equiv_exit": ex}
            json.dump(m, open(mp, "w"), indent=1, sort_keys=True)
            print(d, m["reconfirmed"])
    finally:
        sh("git", "-C", "/repo", "worktree", "remove", "--force", wt)
        sh("git", "-C", "/repo", "worktree", "prune")
        shutil.rmtree(base, ignore_errors=True)
    return 0


if __name__ == "__main__":
    sys.exit(main())
