#!/usr/bin/env python3
"""For every /verif/seeded/<id>/patch.diff: git -C /repo apply, run all 20 quick checks, git -C /repo checkout -- .
Records in meta.json which checks fire (exit 1, with the rule ids named) and which only give up (exit 2).
usage: tools/seed_matrix.py [id ...]"""
import json, os, re, subprocess, sys
from concurrent.futures import ThreadPoolExecutor
HERE = os.path.dirname(os.path.dirname(os.path.abspath(__file__)))
PROPS = ["C%02d" % i for i in range(1, 21)]


def sh(*a, **k):
    return subprocess.run(a, capture_output=True, text=True, **k)


def main():
    ids = sys.argv[1:] or sorted(x for x in os.listdir(os.path.join(HERE, "seeded")) if os.path.isfile(os.path.join(HERE, "seeded", x, "meta.json")))
    if sh("git", "-C", "/repo", "status", "--porcelain", "--untracked-files=no").stdout.strip():
        print("refusing: /repo dirty")
        return 2
    env = dict(os.environ, MINGUS_STATIC_NO_EVIDENCE="1")
    for sid in ids:
        d = os.path.join(HERE, "seeded", sid)
        meta = json.load(open(os.path.join(d, "meta.json")))
        r = sh("git", "-C", "/repo", "apply", os.path.join(d, "patch.diff"))
        if r.returncode:
            print(sid, "does not apply", r.stderr.strip())
            continue
        try:
            def one(p):
                c = subprocess.run(["/venv/bin/python", os.path.join(HERE, "check"), p, "--tier", "quick"], capture_output=True, text=True, env=env)
                return p, c.returncode, c.stdout
            with ThreadPoolExecutor(max_workers=10) as ex:
                res = list(ex.map(one, PROPS))
        finally:
            sh("git", "-C", "/repo", "checkout", "--", ".")
        caught, gaveup, first = {}, {}, {}
        for p, rc, out in res:
            if rc == 1:
                caught[p] = sorted(set(re.findall(r"rule=(R-\S+)", out)))
                msg = [ln.strip() for ln in out.splitlines() if ln.startswith("  ") and not ln.strip().startswith(("rule=", "construct", "R-"))]
                first[p] = msg[0][:400] if msg else ""
            elif rc != 0:
                gaveup[p] = [ln for ln in out.splitlines() if ln.startswith("ANALYSIS-ERROR")][:1]
        meta["caught_by"], meta["gave_up"], meta["first_report"] = caught, gaveup, first
        meta["checked_with"] = "tools/seed_matrix.py: git -C /repo apply <patch>; ./check Cxx --tier quick for all 20; git -C /repo checkout -- ."
        json.dump(meta, open(os.path.join(d, "meta.json"), "w"), indent=1, sort_keys=True)
        print(sid, "caught by", {k: v for k, v in caught.items()}, "gave up:", sorted(gaveup))
    return 0


if __name__ == "__main__":
    sys.exit(main())
