#!/usr/bin/env python3
"""Append a 'fixed' entry for /repo's current HEAD to known_findings.json.
usage: tools/record_fix.py <property> <rule> "<what>" "<witness sentence>" """
import json, os, subprocess, sys
HERE = os.path.dirname(os.path.dirname(os.path.abspath(__file__)))
prop, rule, what, wit = sys.argv[1:5]
rev = sys.argv[5] if len(sys.argv) > 5 else "HEAD"
h = subprocess.run(["git", "-C", "/repo", "rev-parse", "--short", rev], capture_output=True, text=True).stdout.strip()
subj = subprocess.run(["git", "-C", "/repo", "log", "-1", "--format=%s", rev], capture_output=True, text=True).stdout.strip()
assert subj.startswith("fix:"), subj
p = os.path.join(HERE, "known_findings.json")
d = json.load(open(p))
d["fixed"].append({"property": prop, "commit": h, "rule": rule, "what": what, "line": "fixed: property=%s %s %s" % (prop, h, wit)})
json.dump(d, open(p, "w"), indent=1)
print("recorded", prop, h)
