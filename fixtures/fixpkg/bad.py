"""Positive fixtures: every zero-count rule of C15 must match here on every run."""

_registry = {}
_seen = []


def mutable_default(x, acc=[]):
    acc.append(x)
    return acc


def mutates_argument(items):
    items.append(1)
    return len(items)


def mutates_alias(table):
    t = table
    t["k"] = 1


def writes_module_state(x):
    _seen.append(x)
    _registry[x] = True


def rebinds_module_state(x):
    global _seen
    _seen = [x]


class Shared(object):
    things = []

    def __init__(self):
        pass

    def add(self, x):
        self.things.append(x)


def copies_first(items):
    items = list(items)
    items.append(1)
    return items
